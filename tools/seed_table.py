#!/venv/bin/python
"""tools/seed_table.py <matrix logs...> : seeded/RESULTS.md from the logs of tools/seed_matrix.sh (one row per kept seed)"""
import sys, json, re, os, glob
rows = {}
for f in sys.argv[1:]:
    for l in open(f):
        m = re.match(r"(C\d\d/[a-f]) violations=(\d+) first=\[(.*?)\]\s*(.*)$", l.strip())
        if m:
            rows[m.group(1)] = (int(m.group(2)), m.group(3), m.group(4))
        elif "patch-failed" in l:
            rows[l.split()[0]] = (-1, "patch does not apply", "")
out = ["# Seeded changes vs. the quick tier of their own property's check", "",
       "| seed | what it changes (sub-agent's summary, shortened) | violations | first signature reported |", "|---|---|---|---|"]
det = tot = 0
for d in sorted(glob.glob("/verif/seeded/C??/?")):
    sv = d[len("/verif/seeded/"):]
    try:
        meta = json.load(open(d + "/meta.json"))
    except Exception:
        meta = {}
    summ = re.sub(r"\s+", " ", str(meta.get("summary", "")))[:170].replace("|", "\\|")
    n, first, extra = rows.get(sv, (None, "not run", ""))
    tot += 1
    det += 1 if (n or 0) > 0 else 0
    out.append(f"| {sv} | {summ} | {n} | {first[:110].replace('|', chr(92) + '|')} |")
out += ["", f"detected: {det} / {tot}"]
open("/verif/seeded/RESULTS.md", "w").write("\n".join(out) + "\n")
print(f"detected: {det} / {tot}")
print([sv for sv in sorted(rows) if rows[sv][0] <= 0])
