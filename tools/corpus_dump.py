#!/venv/bin/python
"""tools/corpus_dump.py <out.json> : compile the whole corpus with the tree in $VERIF_REPO_DIR; dump status + text per part"""
import sys, json
sys.path.insert(0, "/verif")
from vlib import boot, run, diff
boot.boot()

def work(names):
    c = boot.new_compiler()
    out = {}
    for n in names:
        st, res = diff.compile_insn(c, n)
        out[n] = [st, [t for t in res.rzil] if st == "ok" else type(res).__name__, res.meta if st == "ok" else None]
    return {"res": out}

class C:
    def __init__(self): self.r = {}
    def merge(self, p): self.r.update(p["res"])

if __name__ == "__main__":
    ctx = C()
    names = sorted(boot.corpus())
    run.run_sharded(ctx, work, [(names[i::64],) for i in range(64)], procs=16)
    json.dump(ctx.r, open(sys.argv[1], "w"))
    import collections
    print(collections.Counter(v[0] for v in ctx.r.values()))
