#!/venv/bin/python
"""tools/probe_features.py <C10|C11|C12> : for every generator feature that the check excludes, switch it on alone and
report the failures that appear (used to derive / re-confirm the witnesses in known_findings.json)."""
import sys, json, importlib
sys.path.insert(0, "/verif")
from vlib import boot, gen, run
boot.boot()
from vlib.checks import static_common
which = sys.argv[1]
mod = importlib.import_module(f"vlib.checks.{which.lower()}")
excluded = sorted(gen.ALL_FEATURES - mod.FEATURES) if len(sys.argv) < 4 else sys.argv[3].split(',')
BASE = mod.FEATURES if len(sys.argv) < 4 else gen.SAFE_CORE | {'narrow','pred','alias','explicit','new','hyb_inc','hyb_call','jump'}
out = {}
for f in excluded:
    d = static_common.gen_worker(which, BASE | {f}, int(sys.argv[2]) if len(sys.argv) > 2 else 120, 7, 2, 2, 4)
    fl = sorted(d["failures"], key=lambda x: len(x[1].get("program", "")))
    print("==", f, len(fl), "failure signatures")
    for sig, rep in fl[:3]:
        print("   ", sig[:110]); print("       ", rep["program"][:300]); print("       ", rep["issue"][:200])
    out[f] = fl[:3]
json.dump(out, open(f"/verif/scratch/probe_{which}.json", "w"), indent=1, default=str)
