#!/bin/bash
# tools/try_seed.sh <patch.diff> <check id>... : apply a seeded change to the scratch worktree, run checks, revert
P=$1; shift
WT=/tmp/wt_mut
[ -d $WT ] || git -C /repo worktree add -q --detach $WT HEAD
git -C $WT checkout -q -- . && git -C $WT checkout -q --detach $(git -C /repo rev-parse HEAD) && git -C $WT apply "$P" || { echo "patch failed"; exit 3; }
for c in "$@"; do
  VERIF_REPO_DIR=$WT /verif/check $c 2>&1 | cut -c1-200 | grep -E "VIOLATION|HARNESS|^\[" | head -${HEADN:-6}
done
git -C $WT checkout -q -- .
