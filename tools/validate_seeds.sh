#!/bin/bash
# tools/validate_seeds.sh <ID> : confirm both seeded changes of a property in its scratch worktree
ID=$1
WT=/tmp/seedwt/$ID
HEAD=$(git -C /repo rev-parse HEAD)
git -C $WT checkout -q -- . && git -C $WT clean -fdq && git -C $WT checkout -q --detach $HEAD || { echo "$ID worktree-problem"; exit 1; }
for v in ${VARIANTS:-a b}; do
  D=/tmp/seed/$ID/$v
  [ -f $D/patch.diff ] || { echo "$ID/$v no-patch"; continue; }
  git -C $WT apply --check $D/patch.diff 2>/dev/null || { echo "$ID/$v patch-does-not-apply-to-HEAD"; continue; }
  (cd $WT && timeout 600 /venv/bin/python $D/demo.py >/tmp/seed/$ID/$v/demo_clean.log 2>&1); rc_clean=$?
  git -C $WT apply $D/patch.diff
  tests=$(cd $WT && /venv/bin/python -m pytest -q -p no:cacheprovider --timeout=900 rzilcompiler/Tests/test_all.py 2>&1 | tail -1)
  (cd $WT && timeout 600 /venv/bin/python $D/demo.py >/tmp/seed/$ID/$v/demo_patched.log 2>&1); rc_patched=$?
  git -C $WT checkout -q -- . && git -C $WT clean -fdq
  echo "$ID/$v demo_clean=$rc_clean demo_patched=$rc_patched tests: $tests"
done
