#!/bin/bash
# tools/seed_vs.sh <slot> <seed ID/variant> <check ID>... : run the given checks against one seeded change
SLOT=$1; SV=$2; shift 2
WT=/tmp/wt_mut$SLOT
[ -d $WT ] || git -C /repo worktree add -q --detach $WT HEAD
P=/verif/seeded/${SV%/*}/${SV#*/}/patch.diff
git -C $WT checkout -q -- . && git -C $WT checkout -q --detach $(git -C /repo rev-parse HEAD) && git -C $WT apply "$P" || { echo "$SV patch-failed"; exit 1; }
for ID in "$@"; do
  out=$(VERIF_REPO_DIR=$WT /verif/check $ID 2>&1)
  nv=$(echo "$out" | grep -c '^VIOLATION'); first=$(echo "$out" | grep '^VIOLATION' | head -1 | sed 's/.*\[//; s/\]$//' | cut -c1-120)
  echo "$SV vs $ID: violations=$nv first=[$first] $(echo "$out" | grep -E 'HARNESS' | head -1 | cut -c1-80)"
done
git -C $WT checkout -q -- .
