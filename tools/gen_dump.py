#!/venv/bin/python
"""tools/gen_dump.py <check module, e.g. c05> <n> [regex] : print generated (normalised) programs of a check's feature set,
optionally only those matching the regex, with the match count - to read the generator's distribution"""
import sys, re, importlib
sys.path.insert(0, "/verif")
from vlib import boot, gen
boot.boot()
import hypothesis
from hypothesis import given, settings, Phase
from vlib.cref import show
mod = importlib.import_module(f"vlib.checks.{sys.argv[1]}")
feats = getattr(mod, "FEATURES", None) or getattr(mod, "BASE")
n = int(sys.argv[2]); rx = re.compile(sys.argv[3]) if len(sys.argv) > 3 else None
seen = [0, 0]
@hypothesis.seed(5)
@settings(max_examples=n, database=None, deadline=None, phases=[Phase.generate], suppress_health_check=list(hypothesis.HealthCheck))
@given(gen.program(frozenset(feats), depth=2, nest=3, lo=2, hi=5))
def prop(pe):
    stmts, env = pe
    stmts = gen.normalize(stmts, frozenset(feats), None, {})
    t = show.program(stmts)
    seen[0] += 1
    if rx is None or rx.search(t):
        seen[1] += 1
        if seen[1] <= 8:
            print(t)
prop()
print("programs", seen[0], "matching", seen[1])
