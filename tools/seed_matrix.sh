#!/bin/bash
# tools/seed_matrix.sh <slot> <ID/variant>... : run each seeded change against the check of its own property
SLOT=$1; shift
WT=/tmp/wt_mut$SLOT
[ -d $WT ] || git -C /repo worktree add -q --detach $WT HEAD
for sv in "$@"; do
  ID=${sv%/*}
  P=/verif/seeded/$ID/${sv#*/}/patch.diff
  git -C $WT checkout -q -- . && git -C $WT checkout -q --detach $(git -C /repo rev-parse HEAD) && git -C $WT apply "$P" || { echo "$sv patch-failed"; continue; }
  out=$(VERIF_REPO_DIR=$WT /verif/check $ID 2>&1)
  nv=$(echo "$out" | grep -c '^VIOLATION'); first=$(echo "$out" | grep '^VIOLATION' | head -1 | sed 's/.*\[//; s/\]$//' | cut -c1-110)
  echo "$sv violations=$nv first=[$first] $(echo "$out" | grep -E 'HARNESS' | head -1 | cut -c1-80)"
  git -C $WT checkout -q -- .
done
