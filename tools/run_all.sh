#!/bin/bash
# tools/run_all.sh [seed] : run every check's quick tier once; print one line per check
S=${1:-1}
cd /verif
for i in 01 02 03 04 05 06 07 08 09 10 11 12 13 14 15 16 17 18 19 20; do
  t0=$(date +%s)
  out=$(VERIF_SEED=$S ./check C$i 2>&1); rc=$?
  t1=$(date +%s)
  echo "C$i rc=$rc $((t1-t0))s viol=$(echo "$out" | grep -c '^VIOLATION') known=$(echo "$out" | grep -c '^KNOWN-FINDING') $(echo "$out" | grep -E 'HARNESS' | head -1 | cut -c1-120)"
done
