#!/venv/bin/python
"""Regenerates MANIFEST.json from the table below and validates it against the schema."""
import json, os, sys
HERE = os.path.dirname(os.path.dirname(os.path.abspath(__file__)))

CHECKS = {
 "C17": dict(
   technique="round trip generator AST -> text -> Lark tree -> canonical AST, differential against an independent precedence-climbing parser, multi-process determinism",
   text="Canonical structural forms of the repository's Lark tree and of an independent C parser are compared for the corpus, for an "
        "exhaustive table (all 18x18 binary operator pairs, operators against ?:, unary, casts, parentheses, no-space spellings; assignment "
        "operators; dangling else at depth 1-3; statement-expressions; ~40 operand look-alike tokens) and for Hypothesis programs printed "
        "with minimal and redundant parentheses and varied whitespace. Determinism: the same texts are parsed in five processes with "
        "different PYTHONHASHSEED, by fresh and reused parser objects and through both parser construction sites; tree digests must agree.",
   note="Canonical form drops parentheses, nested block braces and empty statements on both sides. Trusted: vlib/cref/parse.py (C11 6.5 "
        "precedence), vlib/cref/canon.py. Float literals are not modelled.",
   design="7/C17"),
 "C20": dict(
   technique="differential against an independent preprocessor (gcc -E + own brace-matching do-while remover) on bundled and Hypothesis-generated macro sets",
   text="run_preprocess_steps() is executed in scratch git repositories: on the bundled sources (regeneration must reproduce the bundled "
        "resolved file; every instruction must be token-equal to gcc -E plus an independent do-while(0) remover; patch bookkeeping; no "
        "surviving macro; names one-to-one) and on generated macro/patch/shortcode sets (duplicates, continuations, comment shapes, guarded "
        "blocks, nested/sequential wrappers, look-alike identifiers) against an independently assembled 'last patch wins' header; "
        "replace_do_while_0 is also judged as a pure function on generated strings.",
   note="Trusted: gcc's preprocessor, the token comparison and remover in vlib/checks/c20.py. Generated files stay within the shapes of the "
        "bundled files. Scratch copies live under the system temp dir only for the duration of the command.",
   design="7/C20"),
 "C09": dict(
   technique="exhaustive literal-spelling table + sampled literal pairs, differential against a C11 reference and folded-vs-unfolded metamorphic relation",
   text="Every C-valid literal spelling (19 boundary values x decimal/hex x 7 suffixes) is observed through a 64-bit write, a shift, sizeof, "
        "unary + - ~ and a comparison; random literal pairs through + - * and the six comparisons (folded) and again with the literals moved "
        "into typed locals (cannot be folded); a division table checks that inexact / zero division raises; constant-condition ?: templates "
        "with dead arms sharing operands with live code must stay well-formed and agree with C.",
   note="Trusted: literal typing of vlib/cref/parse.py (C11 6.4.4.1, LP64), vlib/cref evaluator, C-body checker. Rejecting a fold is allowed.",
   design="7/C09"),
 "C14": dict(
   technique="Hypothesis rule-based state machine over compilation histories with injected failing compilations; baseline from a pristine process",
   text="A RuleBasedStateMachine drives two Compiler instances of one process with random interleavings of successful compilations (two "
        "entry points: compile_c_stmt and transform_insn), failing compilations of eleven kinds (parse errors, unsupported constructs, type "
        "errors, failures with a pending hybrid or visited attribute constructs) and sub-routine registrations. After every successful step "
        "the normalised text (comments dropped, h_tmpN renamed by first occurrence) and the attribute list are compared with the subject's "
        "baseline: the same subject compiled first on a fresh compiler in its own process.",
   note="Histories are sampled, not enumerated. Compilers persist across machine runs (a longer history is still a history); the replay "
        "file contains the complete operation log since the compilers were created.",
   design="7/C14"),
 "C15": dict(
   technique="metamorphic insertion of unsupported constructs into generated programs + grammar-based generation (hypothesis.extra.lark)",
   text="Each of 14 statement-level and 10 expression-level unsupported constructs is inserted into Hypothesis-generated supported "
        "programs at generated positions (between statements, in if/else arms, loop bodies, operand positions): the compiler must raise. "
        "Every returned text is scanned for effect variables that are declared but unreachable from the returned effect; sentences drawn "
        "from the full bundled grammar that are accepted must not contain the keywords of unsupported statements; edge-of-dialect templates "
        "(chained assignments, brace-less bodies) must be reachable and agree with the C reference.",
   note="Any exception counts as rejection. Trusted: reader/usage counter of vlib/il/static.py; the construct list is the property's.",
   design="7/C15"),
 "C16": dict(
   technique="differential execution of the two output layouts on generated states + validity predicates on both texts",
   text="Every subject (accepted corpus part, Hypothesis program with branches, loops and hybrids) is compiled by a READ_STATEMENTS and an "
        "EXEC_CLASSES compiler: acceptance and attribute lists must agree, both texts must satisfy the C-body and ownership predicates, and "
        "the RzIL interpreter must reach identical final states from the same generated machine states.",
   note="Equality is semantic, not textual. Float/HVX parts are compared for acceptance, attributes and well-formedness only.",
   design="7/C16"),
 "C13": dict(
   technique="generated histories of compilations judged against a token-level attribute oracle (reference function of the text)",
   text="Accepted corpus parts and generated programs combining if / .new / load / store / JUMP / predicate writes are compiled in "
        "random order - interleaved with inputs the transformer rejects after having visited attribute-relevant constructs - on fresh "
        "compilers and on a second compiler instance; every reported list is compared as a set with the attributes a lexer-level scanner "
        "derives from the C text alone (history independent), plus no-op-list => NONE and unimplemented => INVALID.",
   note="Trusted: the scanner in vlib/checks/c13.py (validated on the whole corpus). Order of the list is not judged.",
   design="7/C13"),
 "C18": dict(
   technique="generated inputs x harness-owned schedules (pool size, per-task delays), differential against sequential parsing",
   text="Random subsets/orderings of short corpus behaviours with broken behaviours injected (whole entries, either part of two-part "
        "entries, two-part families sharing a first part) are parsed through Parser.parse with pool sizes 1..16 and deterministic per-task "
        "delays that force out-of-order completion; keys, per-part trees, exception names and empty tree lists are compared with an "
        "in-process sequential parse.",
   note="The OS scheduler is not enumerated; only pool size and completion order are owned (Parser.Pool / parse_single are substituted "
        "from outside, fork start method). Trusted: Lark tree equality.",
   design="7/C18"),
 "C19": dict(
   technique="corpus differential against an independent splitter + Hypothesis assemble/split round trip + generated files in a scratch repository",
   text="All 2181 bundled lines and 72 compounds are compared with a non-regex splitter; generated `insn(NAME, BODY)` lines (bodies with "
        "nested parentheses/braces, commas, ')' at the end, 'insn(' inside, trailing whitespace) must split back to exactly (NAME, BODY) or "
        "raise; generated compound bodies (text before/between/after markers, marker count 0..3) must split into two brace-balanced blocks "
        "with the same token stream; load_insn_behavior is run on successive generated files (no stale entries, malformed lines rejected).",
   note="Rejecting (raising) is always allowed. Trusted: the assembly functions and token comparison in vlib/checks/c19.py.",
   design="7/C19"),
 "C06": dict(
   technique="Hypothesis-generated programs with value-producing side effects, differential execution C reference vs RzIL interpreter",
   text="Programs with 0..4 hybrids (postfix ++/--, calls to bundled sub-routines, GCC statement-expressions) in initialisers, assignments, "
        "if conditions, loop steps, call arguments, store operands and ?: arms (statement-expression arms with differently typed arms, the "
        "shape of the shipped saturation macros) are executed by both models on generated states; every top-level local is stored to memory "
        "at the end so that a misplaced or repeated side effect is observable; a read of a never-written temporary is an error.",
   note="Trusted: vlib/cref, vlib/il, machine model. Programs never read and modify a variable unsequenced. Listed finding classes are "
        "excluded by construction and replayed as witnesses.",
   design="7/C06"),
 "C07": dict(
   technique="exhaustive operand-spelling table, differential execution over generated bank values + static descriptor check",
   text="Every operand spelling QEMU's conventions produce (register class x letter x pair x V/N, explicit registers and aliases with/without "
        "_NEW, 8 immediate letters, 16 load/store forms, jump targets of every width, the PC alias) is compiled in read / write / "
        "read-after-write contexts; the emitted operand descriptors (letter, number, class, alias, .new flag) are checked against an "
        "architectural table and the program is executed by both models over states whose banks differ for .new spellings.",
   note="Trusted: the architectural table in vlib/cref/ast.py (documented operand types), bank model of DESIGN.md 4. Spellings the compiler "
        "rejects are counted, not judged; HVX spellings are checked statically only.",
   design="7/C07"),
 "C08": dict(
   technique="Hypothesis-generated sub-routines and callers (registered via the public API), differential execution; two compilation histories",
   text="Generated sub-routines (integer parameter/return types, locals, branches, loops, nested calls, tail returns in every arm) are "
        "registered with add_sub_routine between other compilations; generated callers with 1..4 calls per statement are executed with the "
        "callee bodies (il_init(DEF) text, flat local namespace) by the RzIL interpreter and compared with real C call semantics, on a "
        "long-lived and on fresh compiler instances. The bundled routines are exercised by C01's callers.",
   note="Trusted: vlib/cref call semantics, vlib/il call-by-name binding of argument terms. Listed finding classes (non-tail return, "
        "temporary/local name collisions, narrower signed return) are excluded by construction and replayed as witnesses.",
   design="7/C08"),
 "C03": dict(
   technique="exhaustive conversion table (context x source x target type) + Hypothesis conversion chains, differential against a C11 reference",
   text="All 8x8 type pairs plus boolean sources in eleven conversion contexts (explicit cast, initialiser, assignment, chained assignment, "
        "Rd/Rdd/Pd/alias register write, argument, return, store+load) are executed on boundary values (thorough: all 256 values for 8-bit "
        "sources) by the reference evaluator and the RzIL interpreter; chains of up to three conversions (separate statements or nested "
        "casts) come from Hypothesis. The table is enumerated completely, values are sampled.",
   note="Trusted: vlib/cref conversion rules (C11 6.3.1.3, two's complement narrowing), vlib/il, machine model. Identity/converting "
        "sub-routines are registered through the public add_sub_routine API.",
   design="7/C03"),
 "C10": dict(
   technique="static RzIL sort checker over corpus, sub-routines and Hypothesis-generated programs (both layouts)",
   text="An independent sort checker (bool / bv(n) / effect, equal-width rules, ITE arms, SEQN arity, LET scope, one width per local incl. "
        "callee bodies in the flat namespace, register-write and store widths) is run over the whole term graph - every BRANCH/ITE arm and "
        "loop body - of every accepted corpus part (thorough: all), every bundled sub-routine and generated programs, in both layouts.",
   note="Trusted: the sort rules in vlib/il/static.py (written from the RzIL documentation, no Rizin source in the sandbox), register widths "
        "from the architectural table, parameter widths from declared C types.",
   design="7/C10"),
 "C11": dict(
   technique="generated-program and corpus search with a C-body well-formedness predicate (validity oracle)",
   text="Every returned text (corpus parts, sub-routine definitions, generated programs; both layouts) must consist of declarations with "
        "initialiser and a final return, declare every identifier once and before use, use valid identifiers and balanced parentheses; "
        "needs_hi/needs_pkt and getter names/declarations are checked, getter uniqueness over the whole corpus.",
   note="Trusted: strict line reader vlib/il/reader.py; plugin vocabulary assumed to be hi/pkt/bundle plus HEX_*/RZ_FLOAT_* names.",
   design="7/C11"),
 "C12": dict(
   technique="generated-program and corpus search with a linear-ownership counting predicate (validity oracle)",
   text="For every RzILOpPure variable: exactly one raw use, all other uses DUP; every RzILOpEffect used exactly once; borrowed parameters "
        "consumed at most once; nothing initialised left unused - counted over all later initialisers and the return for corpus parts, "
        "sub-routine bodies and generated programs with heavy operand re-use, in both layouts.",
   note="Which use is the raw one is not judged (C evaluation order is unspecified). Trusted: reader + counter in vlib/il/static.py.",
   design="7/C12"),
 "C02": dict(
   technique="exhaustive operator x type table + Hypothesis expression trees, differential against a C11 reference evaluator",
   text="Every operator x left type x right type cell (16 binary, 3 unary, ?:; 8 integer types) and all depth-2 operator pairs are compiled "
        "with value / shift / sizeof / condition observers and executed on a boundary grid of operand values (thorough: all 256x256 values for "
        "8-bit cells) by the reference C evaluator and the RzIL interpreter; deeper trees come from Hypothesis. The table is finite and "
        "enumerated completely; values are sampled except for 8-bit cells in thorough.",
   note="Trusted: vlib/cref (C11 6.3.1/6.5, int=32, long=64, -fwrapv), vlib/il, machine model. Cells inside the class of a listed finding are "
        "matched against the exact failing-cell list in known_findings.json; depth-2 cells in such classes are excluded and counted.",
   design="7/C02"),
 "C05": dict(
   technique="Hypothesis-generated statement sequences, differential execution C reference vs RzIL interpreter on generated states",
   text="Generated programs (declarations, simple/compound assignment to locals and registers, if/else chains, for loops with literal and "
        "data-dependent trip counts 0..8, nested loops, stores, nested blocks) are executed by both models on generated states; final register, "
        "memory and jump state must agree. Expressions are kept in the safe core so a failure is about statements. Exploration only.",
   note="Trusted: vlib/cref, vlib/il, machine model (DESIGN.md 4). Classes of listed expression-level findings are excluded by construction and counted.",
   design="7/C05"),
 "C01": dict(
   technique="differential execution: independent C11 reference evaluator vs RzIL interpreter on Hypothesis-generated machine states",
   text="Every accepted corpus part (thorough: all 2181 definitions, 120 states each; quick: ~230 stratified by seed, 20 states) and a caller "
        "per bundled sub-routine is executed twice - C text by an independent evaluator, emitted text by an RzIL interpreter - and the "
        "final register/memory/jump/cancel state compared; accepted parts containing constructs the dialect does not translate are flagged. "
        "Exploration, not proof: states are sampled (boundary-biased), branch coverage per part is reported.",
   note="Trusted: machine model of the plugin macros (DESIGN.md section 4), reference evaluator vlib/cref, reader/interpreter vlib/il. "
        "Float/HVX parts and C-undefined executions are discarded and counted.",
   design="7/C01"),
 "C04": dict(
   technique="exhaustive enumeration + Hypothesis pairs against a reference common-type function",
   text="All ordered (signed,width) pairs over the producible widths (quick) / all 4096x4096 pairs (thorough) are "
        "compared with a five-line reference of C11 6.3.1.8 (rank = width); symmetry, determinism, argument "
        "immutability and promoted_type are checked on each. The domain is finite, so thorough is exhaustive.",
   note="Trusted: the reference function in vlib/checks/c04.py, CPython. Group flags are sampled, not enumerated.",
   design="7/C04"),
}

NOT_YET = {}

EXTRA2 = {
 "C05": " A table of every (target type, source type) pair for += -= *= /= %= is judged as well (cells inside the listed signed->wider-unsigned class excluded and counted); witness programs of the listed block-scope finding are judged every run.",
 "C06": " A numbering sweep compiles the same programs 60-400 times on one fresh compiler (three offsets) so that pending operations get every temporary number; witness programs of the four listed evaluation-order findings are judged every run.",
 "C08": " Template callees whose return consumes an operation, callers with calls in discarded ?: arms, and a call-site part (explicit, alias and N registers passed by reference; the caller's text through the C-body checker) run as well.",
 "C09": " Witness programs of the listed sizeof finding are judged every run.",
 "C11": " needs_hi / needs_pkt templates are compiled through transform_insn; a HexOp struct passed by value is an issue.",
 "C13": " Templates cover postfix writes of predicates, constant conditions and assignments to aliases whose name starts with p.",
 "C14": " Failing compilations include ones whose first leaf already set an attribute flag; subjects include operations whose value shares the type object of an immediate, a literal or a register.",
 "C16": " All operand-spelling cells of C07 are compared across the layouts; both texts are executed with literal register-bank reads (no read is discarded as ambiguous).",
}

# what later rounds added to a check (appended to its level text)
EXTRA = {
 "C03": " The table also covers chained assignment through locals and registers, compound assignment (+= -= *=) to every target type, and "
        "every context with a QEMU bitops macro invocation as the source expression.",
 "C05": " Generated programs include chained assignments whose right-hand side reads the targets, compound assignment to 8/16-bit locals, "
        "if/else arms and loop bodies without braces, and value-unused `v++;` / `({...});` statements as arms and bodies.",
 "C06": " Also: unbraced arms and loop bodies that read the loop counter, and 132 templates with value-producing operations in both arms "
        "of a constant-condition ?: followed by another one in the same expression.",
 "C07": " Also: every spelling read inside arithmetic and a comparison (width of explicit pairs), and loads used without their wrapping "
        "cast in 32/64-bit contexts.",
 "C08": " Arguments are leaves or direct macro invocations; 12 template callees (PC-only, slot, immediates, registers, loads) must yield a "
        "definition that declares the packet/instruction variables it uses.",
 "C09": " Also 19 compile-time-constant conditions that are not bare literals (casts of literals, !, folded arithmetic) in 6 shapes.",
 "C10": " Templates: operand spelling x 18 read/write contexts, literal shape x context, 12 truth-valued expression shapes x 21 consumers; "
        "memory keys must be 32-bit bitvectors.",
 "C11": " Templates as for C10 (the C names derived from operand text); plugin calls must receive their context object (bundle / pkt / hi) "
        "first; the text returned right after a compilation that failed with hybrids pending must be well-formed.",
 "C12": " Templates as for C10.",
 "C14": " A third entry point (compile_insn with parsed_insns) is driven and instruction names are reused for different behaviours.",
 "C15": " 25 statement-level constructs now (each keyword with and without labels, braces and bodies); locals are renamed to the "
        "transformer's internal op names (scanned from its source): the number of effects must not change and all stay reachable; runs of "
        "statements are wrapped into `({ ...; });`; the bodies of bundled and template sub-routines must have no unreachable effect.",
 "C16": " About 600 templates (dead loads, narrow compound assignments, constant conditions, truth-valued consumers) are compared across "
        "the layouts as well.",
 "C17": " 23 pairs of texts that differ only in white space (`- -x` / `--x`) are compiled in both orders on one Compiler and compared "
        "with brand-new compilers.",
 "C18": " The order of the returned entries is compared with the sequential parse as well.",
 "C19": " Malformed lines (cut anywhere, text after the closing parenthesis) must be rejected by the splitter and the loader; compounds "
        "with text before/between/after the markers are loaded from generated files. An atheris (libFuzzer) byte-level target for the "
        "three string helpers runs as a supplementary part.",
 "C20": " Generated macro files contain CONFIG_USER_ONLY blocks with #else branches.",
}

def main():
    props = [json.loads(l) for l in open(os.path.join(HERE, "properties.jsonl"))]
    ids = [p["id"] for p in props]
    checks = []
    for pid in ids:
        if pid not in CHECKS:
            continue
        c = CHECKS[pid]
        checks.append({
            "property_id": pid,
            "quick_cmd": f"./check {pid} --tier quick",
            "thorough_cmd": f"./check {pid} --tier thorough",
            "evidence_file": f"evidence/{pid}.json",
            "replay_cmd_template": f"./check {pid} --replay {{path}}",
            "engine": c.get("engine", "vlib"),
            "level_claimed": {"category": "exploration", "text": c["text"] + EXTRA.get(pid, "") + EXTRA2.get(pid, ""), "design_ref": "DESIGN.md section " + c["design"]},
            "level_note": c["note"],
            "technique": c["technique"],
        })
    na = [{"property_id": pid, "reason": NOT_YET.get(pid, "check not built yet in this round (planned, see DESIGN.md section 7); not claimed until it runs quietly on the unchanged tree")}
          for pid in ids if pid not in CHECKS]
    man = {
        "version": 1,
        "setup_cmd": "./setup.sh",
        "hooks": {
            "guard": "ROT127_RZIL_COMPILER_VERIF",
            "enable": "no source hooks are needed: checks import rzilcompiler from /repo's working tree (or $VERIF_REPO_DIR) and drive public entry points; the variable is exported by the runner but nothing in /repo reads it",
            "baseline_off_cmd": "cd /repo && /venv/bin/python -m pytest -ra -q -p no:cacheprovider --timeout=900 --continue-on-collection-errors rzilcompiler/Tests/test_all.py",
            "source_commits": [],
            "add_only": True,
        },
        "engines": [
            {"name": "vlib", "path": "vlib/", "serves_properties": sorted(CHECKS), "kind_free_text": "Python property-based testing harness: Hypothesis strategies, reference C evaluator, RzIL text reader/interpreter/sort checker, sharded runner"},
        ],
        "checks": checks,
        "not_applicable": na,
        "notes": "All checks are generated-input search against an explicit oracle (property-based testing / fuzzing). Exit 0 held, 1 VIOLATION, 2 harness error. VERIF_SEED and VERIF_TIER are honoured; VERIF_REPO_DIR (default /repo) selects the tree under test.",
    }
    if not na:
        man["not_applicable"] = []
    out = os.path.join(HERE, "MANIFEST.json")
    json.dump(man, open(out, "w"), indent=1)
    try:
        sys.path.insert(0, "/opt/veriftools/pyvenv/lib/python3.11/site-packages")
        import jsonschema
        jsonschema.validate(man, json.load(open("/root/.vp/MANIFEST.schema.json")))
        print("MANIFEST.json valid;", len(checks), "checks,", len(na), "not_applicable")
    except ImportError:
        print("jsonschema not importable; wrote MANIFEST.json unvalidated")

if __name__ == "__main__":
    main()
