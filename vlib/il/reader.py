"""Reader for the C text the compiler emits (instruction bodies and sub-routine definitions).

It is deliberately strict: the emitted body must consist of comment lines, declarations with initialiser
`T [*]name = expr;` and a final `return name;`. Anything else raises ReadError (which C11 reports as
ill-formed text).  Terms are plain tuples:

  ('call', fname, (args...))   ('num', int)   ('str', s)   ('chr', c)   ('id', name)
  ('addr', name)               ('ccast', ctype_name, term)  ('arrow', base, field)
"""
import re


class ReadError(Exception):
    pass


TOK = re.compile(r"""
    (?P<ws>\s+)
  | (?P<comment>//[^\n]*)
  | (?P<num>0[xX][0-9a-fA-F]+|\d+)
  | (?P<id>[A-Za-z_]\w*)
  | (?P<str>"(?:[^"\\]|\\.)*")
  | (?P<chr>'(?:[^'\\]|\\.)')
  | (?P<arrow>->)
  | (?P<p>[()\[\]{},;=*&\-+<>!~|^%/?:.])
""", re.X)

DECL_TYPES = {
    ("RzILOpPure", True): "pure",
    ("RzILOpEffect", True): "effect",
    ("RzILOpBool", True): "pure",
    ("const HexOp", True): "opptr",
    ("const HexOp", False): "op",
    ("HexPkt", True): "pkt",
    ("const HexInsn", True): "insn",
}


def tokenize(text):
    toks = []
    i = 0
    n = len(text)
    while i < n:
        m = TOK.match(text, i)
        if not m:
            raise ReadError(f"bad character {text[i]!r} at {i}: ...{text[max(0,i-20):i+20]!r}")
        i = m.end()
        k = m.lastgroup
        if k in ("ws", "comment"):
            continue
        toks.append((k, m.group()))
    return toks


class Decl:
    __slots__ = ("kind", "ctype", "ptr", "name", "term", "line")

    def __init__(self, kind, ctype, ptr, name, term, line):
        self.kind, self.ctype, self.ptr, self.name, self.term, self.line = kind, ctype, ptr, name, term, line

    def __repr__(self):
        return f"Decl({self.kind} {self.name})"


class Body:
    """decls: list[Decl]; ret: name of returned variable or a term (e.g. NOP())"""

    def __init__(self, decls, ret, text):
        self.decls = decls
        self.ret = ret
        self.text = text
        self.by_name = {}
        for d in decls:
            self.by_name.setdefault(d.name, d)


class _P:
    def __init__(self, toks):
        self.t = toks
        self.i = 0

    def peek(self, k=0):
        return self.t[self.i + k] if self.i + k < len(self.t) else ("eof", "")

    def next(self):
        tok = self.peek()
        self.i += 1
        return tok

    def expect(self, val):
        tok = self.next()
        if tok[1] != val:
            raise ReadError(f"expected {val!r}, got {tok[1]!r} near token {self.i}")
        return tok

    def expr(self):
        k, v = self.peek()
        if k == "num":
            self.next()
            return ("num", int(v, 0))
        if v == "-" and self.peek(1)[0] == "num":
            self.next()
            return ("num", -int(self.next()[1], 0))
        if k == "str":
            self.next()
            return ("str", v[1:-1])
        if k == "chr":
            self.next()
            return ("chr", v[1:-1])
        if v == "&":
            self.next()
            k2, v2 = self.next()
            if k2 != "id":
                raise ReadError("& must be followed by an identifier")
            return ("addr", v2)
        if v == "(":
            # a C cast "(st32) expr"
            k1, v1 = self.peek(1)
            if k1 == "id" and self.peek(2)[1] == ")":
                self.next(); self.next(); self.next()
                return ("ccast", v1, self.expr())
            raise ReadError(f"unexpected '(' near token {self.i}")
        if k == "id":
            self.next()
            if self.peek()[1] == "(":
                self.next()
                args = []
                if self.peek()[1] != ")":
                    while True:
                        args.append(self.expr())
                        if self.peek()[1] == ",":
                            self.next()
                            continue
                        break
                self.expect(")")
                return ("call", v, tuple(args))
            if self.peek()[0] == "arrow":
                self.next()
                k2, v2 = self.next()
                if k2 != "id":
                    raise ReadError("-> must be followed by an identifier")
                return ("arrow", v, v2)
            return ("id", v)
        raise ReadError(f"unexpected token {v!r} at {self.i}")


def parse_expr(text):
    p = _P(tokenize(text))
    e = p.expr()
    if p.peek()[0] != "eof":
        raise ReadError(f"trailing tokens after expression: {p.peek()[1]!r} in {text[:80]!r}")
    return e


_DECL_RE = re.compile(r"^(RzILOpPure|RzILOpEffect|RzILOpBool|const HexOp|HexPkt|const HexInsn) (\*?)([A-Za-z_]\w*) = (.*);$")
_RET_RE = re.compile(r"^return (.*);$")


def parse_body(text):
    """Parse an instruction body (the text returned by the compiler for one part)."""
    decls = []
    ret = None
    for ln, raw in enumerate(text.split("\n")):
        line = raw.strip()
        if not line or line.startswith("//"):
            continue
        if ret is not None:
            raise ReadError(f"statement after return: {line[:80]!r}")
        m = _DECL_RE.match(line)
        if m:
            ctype, star, name, rhs = m.groups()
            key = (ctype, star == "*")
            if key not in DECL_TYPES:
                raise ReadError(f"declaration type {ctype}{star} not in the plugin vocabulary: {line[:80]!r}")
            decls.append(Decl(DECL_TYPES[key], ctype, star == "*", name, parse_expr(rhs), ln))
            continue
        m = _RET_RE.match(line)
        if m:
            ret = parse_expr(m.group(1))
            continue
        raise ReadError(f"line is neither a declaration with initialiser nor a return: {line[:100]!r}")
    if ret is None:
        raise ReadError("no return statement")
    return Body(decls, ret, text)


_SIG_RE = re.compile(r"^RZ_OWN RzILOpEffect \*(hex_\w+)\((.*?)\)\{\n(.*)\n\}$", re.S)


def parse_subroutine_def(text):
    """Parse `RZ_OWN RzILOpEffect *hex_name(params){\n body \n}` -> (name, [(ptype, pname)], Body)"""
    m = _SIG_RE.match(text)
    if not m:
        raise ReadError(f"not a sub-routine definition: {text[:100]!r}")
    name, params, body = m.groups()
    plist = []
    for p in [x.strip() for x in params.split(",") if x.strip()]:
        pm = re.match(r"^(.*?)\s*\*?\s*([A-Za-z_]\w*)$", p)
        if not pm:
            raise ReadError(f"bad parameter {p!r}")
        ptype = p[: p.rfind(pm.group(2))].strip()
        plist.append((ptype, pm.group(2)))
    return name, plist, parse_body(body)


def walk(term):
    """yield all sub-terms (pre-order)"""
    yield term
    if term[0] == "call":
        for a in term[2]:
            yield from walk(a)
    elif term[0] == "ccast":
        yield from walk(term[2])


def show(term, depth=0):
    k = term[0]
    if k == "call":
        return f"{term[1]}({', '.join(show(a) for a in term[2])})"
    if k == "num":
        return str(term[1])
    if k == "str":
        return f'"{term[1]}"'
    if k == "chr":
        return f"'{term[1]}'"
    if k == "id":
        return term[1]
    if k == "addr":
        return "&" + term[1]
    if k == "ccast":
        return f"({term[1]}) {show(term[2])}"
    if k == "arrow":
        return f"{term[1]}->{term[2]}"
    return repr(term)
