"""Interpreter for the RzIL effect denoted by an emitted C body (see reader.py).

C variables that hold pures/effects are *substituted* (the plugin builds one op tree), DUP is identity.
Values: Python bool for RzIL booleans, (width, value) tuples for bitvectors.
Everything that is not well-sorted at run time raises SortError - a translation that executes an ill-sorted
term is wrong whatever value one would assign to it.
"""
from ..machine import (Ambiguous, Inconclusive, Unmodelled, UnknownSlot, UB, mask, sx, regfield, extract,
                       sextract, deposit, bswap)


class ILError(Exception):
    """Base of errors that mean 'the emitted IL is wrong' (as opposed to harness/model limits)."""


class SortError(ILError):
    pass


class ReadUnset(ILError):
    """VARL of a local that was never SETL on this path."""


class UnknownOp(ILError):
    pass


LOOP_BOUND = 100_000

FLOAT_OPS = {"BV2F", "F2BV", "FADD", "FSUB", "FMUL", "FDIV", "FEQ", "FLT", "FLE", "FGT", "FGE", "IS_INF",
             "HEX_INT_TO_D", "HEX_INT_TO_F", "HEX_SINT_TO_D", "HEX_SINT_TO_F", "HEX_D_TO_INT", "HEX_F_TO_INT",
             "HEX_D_TO_SINT", "HEX_F_TO_SINT", "HEX_GET_INSN_RMODE", "HEX_SETROUND", "FNEG", "FABS", "F2F",
             "IS_FNAN", "IS_FINF", "FMOD"}


def bv(w, v):
    return (w, v & mask(w))


def is_bv(x):
    return isinstance(x, tuple) and len(x) == 2 and isinstance(x[0], int)


class Interp:
    def __init__(self, machine, resolver=None, strict_new=True, literal_banks=False):
        """resolver(name) -> (param_names, Body) for hex_<name> sub-routine effects.
        literal_banks: READ_REG(.., false) of a register this instruction already wrote yields the committed (old) value
        instead of being reported as ambiguous - for comparisons of two IL texts with each other (C16)."""
        self.literal_banks = literal_banks
        self.m = machine
        self.resolver = resolver
        self.locals = {}
        self.steps = 0
        self.call_depth = 0
        self.local_widths = {}   # name -> set of sorts ever stored (dynamic view of 'one width per local')

    # ------------------------------------------------------------------ entry
    def run_body(self, body, env=None):
        env = dict(env or {})
        for d in body.decls:
            env[d.name] = (d.term, env)   # env is shared: later lookups see earlier names only by construction
        ret = body.ret
        self.exec(ret, env)

    def jump_record(self):
        flag = self.locals.get("jump_flag", False)
        tgt = self.locals.get("jump_target")
        if flag is not False and flag is not True:
            raise SortError("jump_flag is not a boolean")
        if flag:
            if not is_bv(tgt):
                raise SortError("jump_target not a bitvector")
            if tgt[0] != 32:
                raise SortError(f"jump_target has width {tgt[0]}, expected 32")
            return [True, tgt[1]]
        return [False, None]

    # ------------------------------------------------------------------ effects
    def exec(self, t, env):
        k = t[0]
        if k == "id":
            name = t[1]
            if name not in env:
                raise ILError(f"use of undeclared C variable {name}")
            term, e2 = env[name]
            return self.exec(term, e2)
        if k != "call":
            raise SortError(f"not an effect: {t!r}")
        f, a = t[1], t[2]
        self.steps += 1
        if f == "SEQN":
            n = self.cnum(a[0])
            if n != len(a) - 1:
                raise SortError(f"SEQN count {n} != {len(a) - 1} arguments")
            for x in a[1:]:
                self.exec(x, env)
            return
        if f.startswith("SEQ") and f[3:].isdigit():
            if int(f[3:]) != len(a):
                raise SortError(f"{f} with {len(a)} arguments")
            for x in a:
                self.exec(x, env)
            return
        if f == "SETL":
            name = self.cstr(a[0])
            v = self.ev(a[1], env, {})
            self.local_widths.setdefault(name, set()).add(sort_of(v))
            self.locals[name] = v
            return
        if f in ("NOP", "EMPTY"):
            if a:
                raise SortError(f"{f} takes no arguments")
            return
        if f == "BRANCH":
            c = self.ev(a[0], env, {})
            if not isinstance(c, bool):
                raise SortError("BRANCH condition is not a boolean")
            return self.exec(a[1] if c else a[2], env)
        if f == "REPEAT":
            n = 0
            while True:
                c = self.ev(a[0], env, {})
                if not isinstance(c, bool):
                    raise SortError("REPEAT condition is not a boolean")
                if not c:
                    return
                self.exec(a[1], env)
                n += 1
                if n > LOOP_BOUND:
                    raise Inconclusive("loop bound")
        if f == "STOREW":
            addr = self.ev(a[0], env, {})
            val = self.ev(a[1], env, {})
            if not is_bv(addr) or not is_bv(val):
                raise SortError("STOREW needs bitvectors")
            if addr[0] != 32:
                raise SortError(f"STOREW address of {addr[0]} bits (memory keys are 32 bit)")
            if val[0] % 8:
                raise SortError(f"STOREW of {val[0]} bits")
            self.m.store(addr[1], val[0] // 8, val[1])
            return
        if f == "WRITE_REG":
            op = self.op(a[1], env)
            v = self.ev(a[2], env, {})
            if not is_bv(v):
                raise SortError("WRITE_REG value is not a bitvector")
            info = self.m.reg_info(op[1])
            if v[0] != info["w"]:
                raise SortError(f"WRITE_REG to {op[1]} ({info['w']} bit) with a {v[0]} bit value")
            self.m.write_reg(op[1], v[0], v[1])
            return
        if f == "HEX_STORE_SLOT_CANCELLED":
            self.m.cancel(self.m.slot)
            return
        if f == "HEX_GET_NPC":
            # plugin helper: an effect that leaves the next packet address in the 64 bit local ret_val
            self.locals["ret_val"] = bv(64, self.m.npc)
            return
        if f.startswith("hex_"):
            return self.call_sub(f[4:], a, env)
        if f in FLOAT_OPS:
            raise Unmodelled(f)
        raise UnknownOp(f"effect {f}")

    def call_sub(self, name, args, env):
        if self.resolver is None:
            raise Unmodelled("no sub-routine resolver")
        params, body = self.resolver(name)
        if len(params) != len(args):
            raise SortError(f"hex_{name}: {len(args)} arguments for {len(params)} parameters")
        cenv = {}
        for (ptype, pname), arg in zip(params, args):
            cenv[pname] = (arg, env)
        # implicit plugin objects
        self.call_depth += 1
        if self.call_depth > 50:
            raise Inconclusive("call depth")
        try:
            for d in body.decls:
                cenv[d.name] = (d.term, cenv)
            self.exec(body.ret, cenv)
        finally:
            self.call_depth -= 1

    # ------------------------------------------------------------------ helpers on C-level constants
    def cnum(self, t):
        if t[0] == "num":
            return t[1]
        raise SortError(f"expected a C integer, got {t!r}")

    def cstr(self, t):
        if t[0] == "str":
            return t[1]
        raise SortError(f"expected a string literal, got {t!r}")

    def op(self, t, env):
        """evaluate an operand-descriptor term -> ('op', slot, newflag)"""
        if t[0] == "addr" or t[0] == "id":
            name = t[1]
            if name not in env:
                raise ILError(f"use of undeclared C variable {name}")
            term, e2 = env[name]
            return self.op(term, e2)
        if t[0] == "call":
            f, a = t[1], t[2]
            if f == "ISA2REG":
                return ("op", "isa:" + self.chr(a[1]), self.cbool(a[2]))
            if f == "EXPLICIT2OP":
                cls = a[1][1] if a[1][0] == "id" else repr(a[1])
                return ("op", f"expl:{cls.replace('HEX_REG_CLASS_', '')}:{self.cnum(a[0])}", self.cbool(a[2]))
            if f == "ALIAS2OP":
                al = a[0][1] if a[0][0] == "id" else repr(a[0])
                return ("op", "alias:" + al.replace("HEX_REG_ALIAS_", ""), self.cbool(a[1]))
            if f == "NREG2OP":
                return ("op", "nreg:" + self.chr(a[1]), True)
        raise SortError(f"not an operand descriptor: {t!r}")

    def chr(self, t):
        if t[0] == "chr":
            return t[1]
        raise SortError(f"expected a char literal, got {t!r}")

    def cbool(self, t):
        if t[0] == "id" and t[1] in ("true", "false"):
            return t[1] == "true"
        raise SortError(f"expected true/false, got {t!r}")

    # ------------------------------------------------------------------ pures
    def ev(self, t, env, lets):
        k = t[0]
        if k == "id":
            name = t[1]
            if name in ("IL_TRUE", "IL_FALSE"):
                return name == "IL_TRUE"
            if name not in env:
                raise ILError(f"use of undeclared C variable {name}")
            term, e2 = env[name]
            return self.ev(term, e2, lets)
        if k != "call":
            raise SortError(f"not a pure: {t!r}")
        f, a = t[1], t[2]
        ev = self.ev
        if f == "DUP":
            return ev(a[0], env, lets)
        if f in ("SN", "UN"):
            w = self.cnum(a[0])
            return bv(w, self.cval(a[1], env))
        if f == "U32":
            return bv(32, self.cval(a[0], env))
        if f == "VARL":
            name = self.cstr(a[0])
            if name not in self.locals:
                raise ReadUnset(name)
            return self.locals[name]
        if f == "VARLP":
            name = self.cstr(a[0])
            if name not in lets:
                raise ILError(f"VARLP({name}) outside a LET binding it")
            return lets[name]
        if f == "LET":
            name = self.cstr(a[0])
            v = ev(a[1], env, lets)
            l2 = dict(lets)
            l2[name] = v
            return ev(a[2], env, l2)
        if f == "READ_REG":
            op = self.op(a[1], env)
            new = self.cbool(a[2])
            slot = op[1]
            if new:
                return self.m.read_newbank(slot)
            if slot.startswith("isa:") and slot[4] in "xyz":
                return self.m.read_latest(slot)
            if self.m.is_written(slot) and not self.literal_banks:
                raise Ambiguous(f"committed read of {slot} after this instruction wrote it")
            return self.m.read_committed(slot)
        if f in BIN_BV:
            x, y = ev(a[0], env, lets), ev(a[1], env, lets)
            if not is_bv(x) or not is_bv(y):
                raise SortError(f"{f} applied to a non-bitvector")
            if x[0] != y[0]:
                raise SortError(f"{f} operands have widths {x[0]} and {y[0]}")
            return BIN_BV[f](x[0], x[1], y[1])
        if f in SHIFTS:
            x, y = ev(a[0], env, lets), ev(a[1], env, lets)
            if not is_bv(x) or not is_bv(y):
                raise SortError(f"{f} applied to a non-bitvector")
            return SHIFTS[f](x[0], x[1], y[1])
        if f in CMP:
            x, y = ev(a[0], env, lets), ev(a[1], env, lets)
            if not is_bv(x) or not is_bv(y):
                raise SortError(f"{f} applied to a non-bitvector")
            if x[0] != y[0]:
                raise SortError(f"{f} operands have widths {x[0]} and {y[0]}")
            return CMP[f](x[0], x[1], y[1])
        if f in ("NEG", "LOGNOT"):
            x = ev(a[0], env, lets)
            if not is_bv(x):
                raise SortError(f"{f} applied to a non-bitvector")
            return bv(x[0], -x[1] if f == "NEG" else ~x[1])
        if f == "CAST":
            w = self.cnum(a[0])
            fill = ev(a[1], env, lets)
            x = ev(a[2], env, lets)
            if not isinstance(fill, bool):
                raise SortError("CAST fill is not a boolean")
            if not is_bv(x):
                raise SortError("CAST applied to a non-bitvector")
            if w <= x[0]:
                return bv(w, x[1])
            ext = (mask(w - x[0]) << x[0]) if fill else 0
            return bv(w, x[1] | ext)
        if f in ("SIGNED", "UNSIGNED"):
            w = self.cnum(a[0])
            x = ev(a[1], env, lets)
            if not is_bv(x):
                raise SortError(f"{f} applied to a non-bitvector")
            if w <= x[0]:
                return bv(w, x[1])
            fill = f == "SIGNED" and (x[1] >> (x[0] - 1)) & 1
            return bv(w, x[1] | ((mask(w - x[0]) << x[0]) if fill else 0))
        if f in ("MSB", "LSB", "NON_ZERO", "IS_ZERO"):
            x = ev(a[0], env, lets)
            if not is_bv(x):
                raise SortError(f"{f} applied to a non-bitvector")
            if f == "MSB":
                return bool((x[1] >> (x[0] - 1)) & 1)
            if f == "LSB":
                return bool(x[1] & 1)
            if f == "NON_ZERO":
                return x[1] != 0
            return x[1] == 0
        if f == "INV":
            x = ev(a[0], env, lets)
            if not isinstance(x, bool):
                raise SortError("INV applied to a non-boolean")
            return not x
        if f in ("AND", "OR", "XOR"):
            x, y = ev(a[0], env, lets), ev(a[1], env, lets)
            if not isinstance(x, bool) or not isinstance(y, bool):
                raise SortError(f"{f} applied to a non-boolean")
            return (x and y) if f == "AND" else (x or y) if f == "OR" else (x != y)
        if f == "ITE":
            c = ev(a[0], env, lets)
            if not isinstance(c, bool):
                raise SortError("ITE condition is not a boolean")
            # both arms are evaluated for sort agreement only when cheap; values come from the selected arm
            return ev(a[1] if c else a[2], env, lets)
        if f == "LOADW":
            n = self.cnum(a[0])
            addr = ev(a[1], env, lets)
            if not is_bv(addr):
                raise SortError("LOADW address is not a bitvector")
            if addr[0] != 32:
                raise SortError(f"LOADW address of {addr[0]} bits (memory keys are 32 bit)")
            if n % 8:
                raise SortError(f"LOADW of {n} bits")
            return bv(n, self.m.load(addr[1], n // 8))
        if f in ("INC", "DEC"):
            x = ev(a[0], env, lets)
            n = self.cnum(a[1])
            if not is_bv(x):
                raise SortError(f"{f} applied to a non-bitvector")
            if x[0] != n:
                raise SortError(f"{f}(x, {n}) applied to a {x[0]} bit value")
            return bv(n, x[1] + (1 if f == "INC" else -1))
        if f == "APPEND":
            x, y = ev(a[0], env, lets), ev(a[1], env, lets)
            if not is_bv(x) or not is_bv(y):
                raise SortError("APPEND applied to a non-bitvector")
            return bv(x[0] + y[0], (x[1] << y[0]) | y[1])
        if f in INTRINSICS:
            return self.intrinsic(f, a, env, lets)
        if f == "HEX_GET_NPC":
            return bv(32, self.m.npc)
        if f in FLOAT_OPS:
            raise Unmodelled(f)
        raise UnknownOp(f"pure {f}")

    def cval(self, t, env):
        """a C integer expression inside SN/UN/U32: number, (cast) ISA2IMM(...), pkt->pkt_addr"""
        if t[0] == "num":
            return t[1]
        if t[0] == "ccast":
            v = self.cval(t[2], env)
            ty = t[1]
            if ty[:2] not in ("st", "ut") or not ty[2:].isdigit():
                raise SortError(f"unknown C cast ({ty})")
            w = int(ty[2:])
            v &= mask(w)
            return sx(v, w) if ty[0] == "s" else v
        if t[0] == "call" and t[1] == "ISA2IMM":
            return self.m.imm(self.chr(t[2][1]))
        if t[0] == "arrow":
            if (t[1], t[2]) == ("pkt", "pkt_addr"):
                return self.m.pc
            if (t[1], t[2]) == ("hi", "slot"):
                return self.m.slot
        raise SortError(f"not a C integer expression: {t!r}")

    def intrinsic(self, f, a, env, lets):
        ev = self.ev
        if f == "HEX_REGFIELD":
            prop = a[0][1]
            fld = a[1]
            while fld[0] == "id" and fld[1] in env:      # a parameter passed through (thunk)
                fld, env = env[fld[1]]
            if fld[0] != "id":
                raise SortError("HEX_REGFIELD field is not an enum constant")
            return bv(32, regfield(prop, fld[1]))
        if f == "HEX_GET_CORRESPONDING_CS":
            op = self.op(a[1], env)
            return bv(32, self.m.cs(op[1]))
        vals = [ev(x, env, lets) for x in a]
        for v in vals:
            if not is_bv(v):
                raise SortError(f"{f} applied to a non-bitvector")
        ws = [v[0] for v in vals]
        exp = INTRINSICS[f]
        if ws != list(exp[0]):
            raise SortError(f"{f} argument widths {ws}, expected {list(exp[0])}")
        xs = [v[1] for v in vals]
        if f == "EXTRACT32":
            return bv(32, extract(xs[0], sx(xs[1], 32), sx(xs[2], 32), 32))
        if f == "EXTRACT64":
            return bv(64, extract(xs[0], sx(xs[1], 32), sx(xs[2], 32), 64))
        if f == "SEXTRACT64":
            return bv(64, sextract(xs[0], sx(xs[1], 32), sx(xs[2], 32), 64))
        if f == "DEPOSIT32":
            return bv(32, deposit(xs[0], sx(xs[1], 32), sx(xs[2], 32), xs[3], 32))
        if f == "DEPOSIT64":
            return bv(64, deposit(xs[0], sx(xs[1], 32), sx(xs[2], 32), xs[3], 64))
        if f in ("BSWAP16", "BSWAP32", "BSWAP64"):
            w = int(f[5:])
            return bv(w, bswap(xs[0], w))
        raise UnknownOp(f)


def sort_of(v):
    return "bool" if isinstance(v, bool) else f"bv{v[0]}"


def _udiv(w, x, y):
    return (w, mask(w) if y == 0 else x // y)


def _umod(w, x, y):
    return (w, x if y == 0 else x % y)


def _sdiv(w, x, y):
    if y == 0:
        raise UB("sdiv by zero")
    a, b = sx(x, w), sx(y, w)
    q = abs(a) // abs(b)
    if (a < 0) != (b < 0):
        q = -q
    return bv(w, q)


def _smod(w, x, y):
    if y == 0:
        raise UB("smod by zero")
    a, b = sx(x, w), sx(y, w)
    r = abs(a) % abs(b)
    if a < 0:
        r = -r
    return bv(w, r)


BIN_BV = {
    "ADD": lambda w, x, y: bv(w, x + y),
    "SUB": lambda w, x, y: bv(w, x - y),
    "MUL": lambda w, x, y: bv(w, x * y),
    "DIV": _udiv,
    "MOD": _umod,
    "SDIV": _sdiv,
    "SMOD": _smod,
    "LOGAND": lambda w, x, y: (w, x & y),
    "LOGOR": lambda w, x, y: (w, x | y),
    "LOGXOR": lambda w, x, y: (w, x ^ y),
}


def _shl(w, x, n):
    return (w, 0) if n >= w else bv(w, x << n)


def _shr(w, x, n):
    return (w, 0) if n >= w else (w, x >> n)


def _sar(w, x, n):
    s = sx(x, w)
    if n >= w:
        return bv(w, -1 if s < 0 else 0)
    return bv(w, s >> n)


SHIFTS = {"SHIFTL0": _shl, "SHIFTR0": _shr, "SHIFTRA": _sar}

CMP = {
    "EQ": lambda w, x, y: x == y,
    "ULT": lambda w, x, y: x < y,
    "ULE": lambda w, x, y: x <= y,
    "UGT": lambda w, x, y: x > y,
    "UGE": lambda w, x, y: x >= y,
    "SLT": lambda w, x, y: sx(x, w) < sx(y, w),
    "SLE": lambda w, x, y: sx(x, w) <= sx(y, w),
    "SGT": lambda w, x, y: sx(x, w) > sx(y, w),
    "SGE": lambda w, x, y: sx(x, w) >= sx(y, w),
}

# name -> (argument widths, result width); widths from the declared C types in qemu_rzil_macros.json
INTRINSICS = {
    "EXTRACT32": ((32, 32, 32), 32),
    "EXTRACT64": ((64, 32, 32), 64),
    "SEXTRACT64": ((64, 32, 32), 64),
    "DEPOSIT32": ((32, 32, 32, 32), 32),
    "DEPOSIT64": ((64, 32, 32, 64), 64),
    "BSWAP16": ((16,), 16),
    "BSWAP32": ((32,), 32),
    "BSWAP64": ((64,), 64),
    "HEX_REGFIELD": (None, 32),
    "HEX_GET_CORRESPONDING_CS": (None, 32),
}
