"""Static analysers over the emitted text (reader.Body): RzIL sort checker (C10), C-body well-formedness (C11),
linear ownership (C12), effect reachability (C15). All work on the term graph - every BRANCH/ITE arm and loop
body is visited, not only an executed path."""
import re

from .reader import walk, Body
from .interp import INTRINSICS, FLOAT_OPS

BOOL = "bool"
EFFECT = "effect"


def bvs(n):
    return f"bv{n}"


class SortIssue:
    def __init__(self, kind, msg, where=""):
        self.kind, self.msg, self.where = kind, msg, where

    def __repr__(self):
        return f"{self.kind}: {self.msg}"


class SortChecker:
    """`reg_width(slot) -> int | None`, `param_sorts`: name -> sort for sub-routine parameters,
    `resolver(name) -> (params, Body)` for callee bodies (flat local namespace)."""

    def __init__(self, reg_width, resolver=None, param_sorts=None, sub_param_sorts=None):
        self.reg_width = reg_width
        self.resolver = resolver
        self.param_sorts = param_sorts or {}
        self.sub_param_sorts = sub_param_sorts   # name -> list of sorts or None (external)
        self.issues = []
        self.locals = {}       # local name -> set of sorts stored
        self.local_reads = set()
        self.depth = 0

    def issue(self, kind, msg):
        if len(self.issues) < 50:
            self.issues.append(SortIssue(kind, msg))

    # -------------------------------------------------------------- public
    def check_body(self, body, env=None):
        env = dict(env or {})
        for d in body.decls:
            env[d.name] = (d.term, env)
        # iterate to a fixpoint of local sorts (SETL before VARL in program order is not guaranteed statically)
        for _ in range(4):
            before = {k: set(v) for k, v in self.locals.items()}
            self.issues = []
            self._effect(body.ret, env, {})
            if before == self.locals:
                break
        for name, sorts in self.locals.items():
            s = {x for x in sorts if x is not None}
            if len(s) > 1:
                self.issue("local-width", f"local {name} is stored with sorts {sorted(s)}")
        # (a local that is read but never set is not reported here: the C text itself may read an uninitialised
        #  variable; reads of never-written temporaries on an executed path are caught dynamically by C06)
        return self.issues

    # -------------------------------------------------------------- helpers
    def _lookup(self, name, env):
        if name not in env:
            self.issue("undeclared", f"use of undeclared C variable {name}")
            return None
        return env[name]

    def _cnum(self, t):
        return t[1] if t[0] == "num" else None

    def _op_slot(self, t, env):
        while t[0] in ("addr", "id"):
            r = self._lookup(t[1], env)
            if r is None:
                return None
            t, env = r
        if t[0] != "call":
            return None
        f, a = t[1], t[2]
        try:
            if f == "ISA2REG":
                return "isa:" + a[1][1]
            if f == "EXPLICIT2OP":
                return f"expl:{a[1][1].replace('HEX_REG_CLASS_', '')}:{a[0][1]}"
            if f == "ALIAS2OP":
                return "alias:" + a[0][1].replace("HEX_REG_ALIAS_", "")
            if f == "NREG2OP":
                return "nreg:" + a[1][1]
        except (IndexError, TypeError):
            return None
        return None

    # -------------------------------------------------------------- effects
    def _effect(self, t, env, lets):
        if t[0] == "id":
            r = self._lookup(t[1], env)
            if r is not None:
                self._effect(r[0], r[1], lets)
            return
        if t[0] != "call":
            self.issue("not-effect", f"{t!r} used as an effect")
            return
        f, a = t[1], t[2]
        if f == "SEQN":
            n = self._cnum(a[0]) if a else None
            if n != len(a) - 1:
                self.issue("seqn-count", f"SEQN({n}, ...) has {len(a) - 1} effect arguments")
            for x in a[1:]:
                self._effect(x, env, lets)
        elif re.fullmatch(r"SEQ\d", f):
            if int(f[3:]) != len(a):
                self.issue("seqn-count", f"{f} has {len(a)} arguments")
            for x in a:
                self._effect(x, env, lets)
        elif f == "SETL":
            name = a[0][1] if a[0][0] == "str" else None
            s = self._pure(a[1], env, lets)
            if name is None:
                self.issue("setl-name", "SETL without a string name")
            else:
                self.locals.setdefault(name, set()).add(s)
        elif f in ("NOP", "EMPTY"):
            if a:
                self.issue("arity", f"{f} takes no arguments")
        elif f == "BRANCH":
            if len(a) != 3:
                self.issue("arity", "BRANCH needs 3 arguments")
                return
            self._want(a[0], env, lets, BOOL, "BRANCH condition")
            self._effect(a[1], env, lets)
            self._effect(a[2], env, lets)
        elif f == "REPEAT":
            self._want(a[0], env, lets, BOOL, "REPEAT condition")
            self._effect(a[1], env, lets)
        elif f == "STOREW":
            sa = self._pure(a[0], env, lets)
            sv = self._pure(a[1], env, lets)
            if sa is not None and sa != "bv32":
                # rz_il_validate: the key of a store/load must have the memory's key length (32 bit on Hexagon)
                self.issue("sort", f"STOREW address is {sa}")
            if sv is not None and (not sv.startswith("bv") or int(sv[2:]) % 8):
                self.issue("sort", f"STOREW value is {sv}")
        elif f == "WRITE_REG":
            slot = self._op_slot(a[1], env)
            sv = self._pure(a[2], env, lets)
            w = self.reg_width(slot) if slot else None
            if slot is None:
                self.issue("operand", "WRITE_REG target is not an operand descriptor")
            elif w is not None and sv is not None and sv != bvs(w):
                self.issue("write-width", f"WRITE_REG to {slot} ({w} bit) receives {sv}")
        elif f in ("HEX_STORE_SLOT_CANCELLED", "HEX_GET_NPC"):
            if f == "HEX_GET_NPC":
                self.locals.setdefault("ret_val", set()).add(bvs(64))
        elif f.startswith("hex_"):
            self._call(f[4:], a, env, lets)
        elif f in FLOAT_OPS:
            pass
        else:
            self.issue("unknown-effect", f"unknown effect constructor {f}")

    def _call(self, name, args, env, lets):
        if self.resolver is None:
            return
        try:
            params, body = self.resolver(name)
        except Exception as e:
            self.issue("callee", f"cannot resolve hex_{name}: {e}")
            return
        if len(params) != len(args):
            self.issue("arity", f"hex_{name}: {len(args)} arguments for {len(params)} parameters")
            return
        want = self.sub_param_sorts(name) if self.sub_param_sorts else None
        cenv = {}
        for i, ((ptype, pname), arg) in enumerate(zip(params, args)):
            cenv[pname] = (arg, env)
            if "RzILOpPure" in ptype:
                s = self._pure(arg, env, lets)
                if want and want[i] is not None and s is not None and s != want[i]:
                    self.issue("arg-width", f"hex_{name} parameter {pname} ({want[i]}) receives {s}")
        self.depth += 1
        if self.depth > 20:
            self.depth -= 1
            return
        for d in body.decls:
            cenv[d.name] = (d.term, cenv)
        self._effect(body.ret, cenv, {})
        self.depth -= 1

    # -------------------------------------------------------------- pures
    def _want(self, t, env, lets, sort, what):
        s = self._pure(t, env, lets)
        if s is not None and s != sort:
            self.issue("sort", f"{what} is {s}, expected {sort}")
        return s

    def _bv(self, t, env, lets, what):
        s = self._pure(t, env, lets)
        if s is not None and not s.startswith("bv"):
            self.issue("sort", f"{what} is {s}, expected a bitvector")
            return None
        return s

    def _pure(self, t, env, lets):
        """-> sort string or None (unknown)"""
        if t[0] == "id":
            n = t[1]
            if n in ("IL_TRUE", "IL_FALSE"):
                return BOOL
            if n in self.param_sorts and n not in env:
                return self.param_sorts[n]
            r = self._lookup(n, env)
            if r is None:
                return None
            if r[0][0] == "id" and r[0][1] == n:
                return self.param_sorts.get(n)
            return self._pure(r[0], r[1], lets)
        if t[0] != "call":
            self.issue("not-pure", f"{t!r} used as a pure")
            return None
        f, a = t[1], t[2]
        P = lambda x: self._pure(x, env, lets)
        if f == "DUP":
            return P(a[0])
        if f in ("SN", "UN"):
            n = self._cnum(a[0])
            return bvs(n) if n else None
        if f == "U32":
            return bvs(32)
        if f == "VARL":
            name = a[0][1]
            self.local_reads.add(name)
            s = {x for x in self.locals.get(name, ()) if x is not None}
            if name == "ret_val" and not s:
                return bvs(64)
            return next(iter(s)) if len(s) == 1 else (sorted(s)[0] if s else None)
        if f == "VARLP":
            name = a[0][1]
            if name not in lets:
                self.issue("let-scope", f"VARLP({name}) is not inside a LET that binds it")
                return None
            return lets[name]
        if f == "LET":
            s = P(a[1])
            l2 = dict(lets)
            l2[a[0][1]] = s
            return self._pure(a[2], env, l2)
        if f == "READ_REG":
            slot = self._op_slot(a[1], env)
            if slot is None:
                self.issue("operand", "READ_REG source is not an operand descriptor")
                return None
            w = self.reg_width(slot)
            return bvs(w) if w else None
        if f in ("ADD", "SUB", "MUL", "DIV", "MOD", "SDIV", "SMOD", "LOGAND", "LOGOR", "LOGXOR"):
            x = self._bv(a[0], env, lets, f + " operand")
            y = self._bv(a[1], env, lets, f + " operand")
            if x and y and x != y:
                self.issue("width-mismatch", f"{f} operands are {x} and {y}")
            return x or y
        if f in ("SHIFTL0", "SHIFTR0", "SHIFTRA"):
            x = self._bv(a[0], env, lets, f + " operand")
            self._bv(a[1], env, lets, f + " distance")
            return x
        if f in ("EQ", "ULT", "ULE", "UGT", "UGE", "SLT", "SLE", "SGT", "SGE"):
            x = self._bv(a[0], env, lets, f + " operand")
            y = self._bv(a[1], env, lets, f + " operand")
            if x and y and x != y:
                self.issue("width-mismatch", f"{f} operands are {x} and {y}")
            return BOOL
        if f in ("NEG", "LOGNOT"):
            return self._bv(a[0], env, lets, f + " operand")
        if f == "CAST":
            n = self._cnum(a[0])
            self._want(a[1], env, lets, BOOL, "CAST fill")
            self._bv(a[2], env, lets, "CAST operand")
            return bvs(n) if n else None
        if f in ("SIGNED", "UNSIGNED"):
            n = self._cnum(a[0])
            self._bv(a[1], env, lets, f + " operand")
            return bvs(n) if n else None
        if f in ("MSB", "LSB", "NON_ZERO", "IS_ZERO"):
            self._bv(a[0], env, lets, f + " operand")
            return BOOL
        if f == "INV":
            self._want(a[0], env, lets, BOOL, "INV operand")
            return BOOL
        if f in ("AND", "OR", "XOR"):
            self._want(a[0], env, lets, BOOL, f + " operand")
            self._want(a[1], env, lets, BOOL, f + " operand")
            return BOOL
        if f == "ITE":
            self._want(a[0], env, lets, BOOL, "ITE condition")
            x, y = P(a[1]), P(a[2])
            if x and y and x != y:
                self.issue("ite-arms", f"ITE arms are {x} and {y}")
            return x or y
        if f == "LOADW":
            n = self._cnum(a[0])
            sa = self._bv(a[1], env, lets, "LOADW address")
            if sa is not None and sa != "bv32":
                self.issue("sort", f"LOADW address is {sa}")
            return bvs(n) if n else None
        if f in ("INC", "DEC"):
            x = self._bv(a[0], env, lets, f + " operand")
            n = self._cnum(a[1])
            if x and n and x != bvs(n):
                self.issue("width-mismatch", f"{f}(x, {n}) applied to {x}")
            return x
        if f == "APPEND":
            x, y = self._bv(a[0], env, lets, "APPEND"), self._bv(a[1], env, lets, "APPEND")
            if x and y:
                return bvs(int(x[2:]) + int(y[2:]))
            return None
        if f in INTRINSICS:
            ws, rw = INTRINSICS[f]
            if ws is not None:
                if len(a) != len(ws):
                    self.issue("arity", f"{f} with {len(a)} arguments")
                for x, w in zip(a, ws):
                    s = self._bv(x, env, lets, f + " argument")
                    if s and s != bvs(w):
                        self.issue("arg-width", f"{f} argument is {s}, expected bv{w}")
            return bvs(rw)
        if f == "HEX_GET_NPC":
            return bvs(32)
        if f in FLOAT_OPS:
            for x in a:
                if x[0] == "call":
                    P(x)
            return None
        self.issue("unknown-pure", f"unknown pure constructor {f}")
        return None


# ---------------------------------------------------------------------------------------------- C body (C11)

IDENT = re.compile(r"^[A-Za-z_]\w*$")
PLUGIN_IDS = {"hi", "pkt", "bundle", "true", "false", "IL_TRUE", "IL_FALSE"}
PLUGIN_PREFIXES = ("HEX_", "RZ_FLOAT_", "RZ_FLOAT_RMODE")


def free_ids(term):
    for t in walk(term):
        if t[0] in ("id", "addr"):
            yield t[1]
        elif t[0] == "arrow":
            yield t[1]


CONTEXT_ARG = {"WRITE_REG": "bundle", "READ_REG": "pkt", "ISA2REG": "hi", "ISA2IMM": "hi", "NREG2OP": "bundle"}


def check_c_body(body, params=()):
    """declared-before-use, declared-once, identifier syntax; returns list of (kind, msg)"""
    issues = []
    declared = set(params)
    for d in body.decls:
        if not IDENT.match(d.name):
            issues.append(("bad-identifier", d.name))
        for n in free_ids(d.term):
            if n in declared or n in PLUGIN_IDS or n.startswith(PLUGIN_PREFIXES):
                continue
            issues.append(("undeclared-identifier", f"{n} used in initialiser of {d.name}"))
        if d.name in declared:
            issues.append(("redeclared", d.name))
        declared.add(d.name)
    for n in free_ids(body.ret):
        if n not in declared and n not in PLUGIN_IDS and not n.startswith(PLUGIN_PREFIXES):
            issues.append(("undeclared-identifier", f"{n} used in return"))
    # plugin functions take their context object first: hex_write_reg(HexInsnPktBundle *), hex_read_reg(HexPkt *),
    # ISA2REG/ISA2IMM(HexInsn *), NREG2OP(HexInsnPktBundle *) - a different variable there is a C type error
    def calls(t):
        if isinstance(t, tuple) and t and t[0] == "call":
            yield t
        if isinstance(t, (tuple, list)):
            for x in t:
                if isinstance(x, (tuple, list)):
                    yield from calls(x)
    structs = {d.name for d in body.decls if d.kind == "op"}       # `const HexOp x_op = ...` (a struct, not a pointer)
    for d in body.decls:
        for c in calls(d.term):
            for a_ in c[2]:
                # every plugin function takes operands as `const HexOp *`: a struct variable needs its address taken
                if a_[0] == "id" and a_[1] in structs:
                    issues.append(("operand-struct-passed-by-value", f"{c[1]}(... {a_[1]} ...) in {d.name}"))
            want = CONTEXT_ARG.get(c[1])
            if want and (not c[2] or c[2][0] != ("id", want)):
                issues.append(("plugin-call-context", f"{c[1]} gets {c[2][0] if c[2] else None} instead of {want} in {d.name}"))
    # balanced parentheses of the raw text (the reader would have failed otherwise, but check the raw text too)
    depth = 0
    code = "\n".join(l for l in body.text.split("\n") if not l.strip().startswith("//"))
    for ch in re.sub(r'"[^"]*"|\'.\'', "", code):
        if ch == "(":
            depth += 1
        elif ch == ")":
            depth -= 1
            if depth < 0:
                break
    if depth != 0:
        issues.append(("unbalanced-parentheses", ""))
    return issues


# ---------------------------------------------------------------------------------------------- ownership (C12)

def count_uses(body, params=()):
    """for every declared pure/effect variable and pure parameter: (raw uses, DUP uses) in later initialisers
    and the return"""
    names = {d.name: d.kind for d in body.decls}
    for p in params:
        names.setdefault(p, "param")
    raw = {n: 0 for n in names}
    dup = {n: 0 for n in names}

    def visit(t, in_dup=False):
        k = t[0]
        if k == "id":
            if t[1] in names:
                if in_dup:
                    dup[t[1]] += 1
                else:
                    raw[t[1]] += 1
        elif k == "call":
            if t[1] == "DUP" and len(t[2]) == 1 and t[2][0][0] == "id":
                visit(t[2][0], True)
            else:
                for a in t[2]:
                    visit(a, False)
        elif k == "ccast":
            visit(t[2], in_dup)

    for d in body.decls:
        visit(d.term)
    visit(body.ret)
    return names, raw, dup


def check_ownership(body, pure_params=()):
    issues = []
    names, raw, dup = count_uses(body, pure_params)
    for n, kind in names.items():
        if kind == "pure":
            if raw[n] + dup[n] == 0:
                issues.append(("pure-unused", f"{n} is initialised but never used (leaked)"))
            elif raw[n] == 0:
                issues.append(("pure-only-dup", f"{n} is only used through DUP (original leaked)"))
            elif raw[n] > 1:
                issues.append(("pure-consumed-twice", f"{n} is consumed {raw[n]} times without DUP"))
        elif kind == "effect":
            if dup[n]:
                issues.append(("effect-dup", f"effect {n} wrapped in DUP"))
            if raw[n] == 0:
                issues.append(("effect-unused", f"effect {n} is initialised but never sequenced"))
            elif raw[n] > 1:
                issues.append(("effect-used-twice", f"effect {n} is used {raw[n]} times"))
        elif kind == "param":
            if raw[n] > 1:
                issues.append(("param-consumed-twice", f"borrowed parameter {n} is consumed {raw[n]} times without DUP"))
    return issues
