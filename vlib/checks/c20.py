"""C20 - macro resolution equals standard C preprocessing under the patched macro set.

Bundled sources: run_preprocess_steps() in a scratch git copy (outside /repo and /verif, removed afterwards):
 (i) the regenerated resolved file equals the bundled one (non-# lines); (ii) independent pipeline - `gcc -E -P` on
 combined.h followed by an independent brace-matching `do { X } while (0)` remover - token-equal per instruction;
 (iii) every patch name occurs exactly once in macros_patched.h with the patch text, user-only patches are present;
 (iv) no defined macro name survives in a resolved body; (v) names one-to-one with shortcode.h.
Generated sources (Hypothesis): macro sets with duplicates, continuations, guarded blocks, comments; patch sets that
replace 0..n macros and add new ones; shortcode bodies with nested/sequential do-while(0) wrappers and look-alike
identifiers. Oracle: gcc -E on an independently assembled header + the independent remover. The helper
replace_do_while_0 is also judged as a pure function.
"""
import os
import re
import shutil
import subprocess
import tempfile

from .. import boot, run

TOK = re.compile(r"[A-Za-z_]\w*|0[xX][0-9a-fA-F]+\w*|\d+\w*|\S")


def toks(s):
    return TOK.findall(s)


def remove_do_while0(tokens):
    """independent remover on a token list: `do { X } while ( 0 )` -> X, innermost first, brace matching"""
    changed = True
    while changed:
        changed = False
        i = 0
        while i < len(tokens):
            if tokens[i] == "do" and i + 1 < len(tokens) and tokens[i + 1] == "{":
                depth = 0
                j = i + 1
                while j < len(tokens):
                    if tokens[j] == "{":
                        depth += 1
                    elif tokens[j] == "}":
                        depth -= 1
                        if depth == 0:
                            break
                    j += 1
                if j < len(tokens) and tokens[j + 1:j + 5] == ["while", "(", "0", ")"]:
                    tokens = tokens[:i] + tokens[i + 2:j] + tokens[j + 5:]
                    changed = True
                    continue
            i += 1
    return tokens


def scratch_repo(files):
    d = tempfile.mkdtemp(prefix="c20_")
    subprocess.run(["git", "init", "-q", d], check=True)
    pp = os.path.join(d, "Resources/Hexagon/Preprocessor")
    os.makedirs(pp)
    for name, content in files.items():
        with open(os.path.join(pp, name), "w") as f:
            f.write(content)
    return d, pp


def run_pipeline(d):
    """run the repository's preprocessing steps with cwd inside the scratch repository"""
    from rzilcompiler.Preprocessor.Hexagon.PreprocessorHexagon import PreprocessorHexagon as PH
    from rzilcompiler.Configuration import Conf, InputFile
    old = os.getcwd()
    os.chdir(d)
    try:
        with boot.quiet():
            ph = PH(Conf.get_path(InputFile.HEXAGON_PP_SHORTCODE_H))
            ph.run_preprocess_steps()
    finally:
        os.chdir(old)


def insn_lines(text):
    out = {}
    order = []
    for line in text.split("\n"):
        m = re.match(r"^\s*insn\s*\(\s*(\w+)\s*,(.*)\)\s*$", line)
        if m:
            out[m.group(1)] = m.group(2)
            order.append(m.group(1))
    return out, order


def gcc_E(path, cwd):
    r = subprocess.run(["gcc", "-E", "-P", "-w", "-x", "c", path], cwd=cwd, capture_output=True, text=True)
    return r.stdout


def macro_names(text):
    fn, obj = set(), set()
    for m in re.finditer(r"^#define\s+(\w+)(\()?", text, re.M):
        (fn if m.group(2) else obj).add(m.group(1))
    return fn, obj


def bundled_part():
    p = run.Part()
    src = os.path.join(boot.REPO_DIR, "Resources/Hexagon/Preprocessor")
    files = {}
    for n in ("macros.h", "macros.inc", "macros_mmvec.h", "patches_macros.h", "shortcode.h"):
        files[n] = open(os.path.join(src, n)).read()
    bundled = open(os.path.join(src, "shortcode_resolved.h")).read()
    d, pp = scratch_repo(files)
    try:
        run_pipeline(d)
        regen = open(os.path.join(pp, "shortcode_resolved.h")).read()
        patched = open(os.path.join(pp, "macros_patched.h")).read()
        combined = os.path.join(pp, "combined.h")
        gcc_out = gcc_E(combined, pp)
    finally:
        shutil.rmtree(d, ignore_errors=True)
    # (i) regeneration reproduces the bundled file
    a = [l for l in regen.split("\n") if not l.startswith("#") and l.strip()]
    b = [l for l in bundled.split("\n") if not l.startswith("#") and l.strip()]
    p.ev()
    if a != b:
        nd = sum(1 for x, y in zip(a, b) if x != y) + abs(len(a) - len(b))
        first = next(((x, y) for x, y in zip(a, b) if x != y), ("", ""))
        p.failure("C20 regenerated resolved file differs from the bundled one",
                  {"differing_lines": nd, "regen": first[0][:200], "bundled": first[1][:200]})
    # (v) names one-to-one with shortcode.h
    sc_names = re.findall(r"^DEF_SHORTCODE\(\s*(\w+)\s*,", files["shortcode.h"], re.M)
    res, order = insn_lines(regen)
    p.ev()
    if order != sc_names:
        p.failure("C20 instruction names not preserved one-to-one", {"shortcode": len(sc_names), "resolved": len(order),
                                                                     "missing": sorted(set(sc_names) - set(order))[:5]})
    # (ii) independent pipeline
    g, gorder = insn_lines(gcc_out)
    for n in sc_names:
        p.ev()
        if n not in g or n not in res:
            p.failure("C20 instruction missing from a pipeline", {"insn": n, "in_gcc": n in g, "in_repo": n in res})
            continue
        want = remove_do_while0(toks(g[n]))
        got = toks(res[n])
        if "do" in toks(g[n]):
            p.nontriv(("bundled-dowhile", n))
        elif len(got) > 30:
            p.nontriv(("bundled", n))
        if want != got:
            p.failure("C20 bundled instruction differs from standard preprocessing",
                      {"insn": n, "repo": res[n][:300], "gcc+remover": " ".join(want)[:300]})
    # (iii) patches
    patch_text = re.sub(r"\\\s*\n", "", files["patches_macros.h"])
    patches = {}
    for line in patch_text.split("\n"):
        m = re.match(r"^#define\s+(\w+)", line)
        if m:
            patches[m.group(1)] = line
    plines = patched.split("\n")
    for name, line in patches.items():
        p.ev()
        occ = [l for l in plines if re.match(rf"^#define\s+{re.escape(name)}\b", l)]
        if len(occ) != 1 or toks(occ[0]) != toks(line):
            p.failure("C20 patch not applied exactly once", {"macro": name, "occurrences": len(occ), "first": occ[:1]})
    # (iv) no defined macro survives
    fn, obj = macro_names(patched)
    for n in sc_names:
        body = res.get(n, "")
        tk = toks(body)
        for i, t in enumerate(tk):
            if t in fn and i + 1 < len(tk) and tk[i + 1] == "(" or t in obj:
                if t in ("insn",):
                    continue
                p.failure("C20 macro invocation survives in a resolved body", {"insn": n, "macro": t})
                break
    p.sample({"bundled_instructions": len(sc_names)})
    return p.d


# ------------------------------------------------------------------------------------------- generated sources

BODY_ATOMS = ["RdV = RsV;", "fA(RsV);", "fB(RsV, RtV);", "RdV = fC(RsV) + OBJ;", "fWRAP(RdV = 1);", "fWRAP2(RsV, RtV);",
              "undo = 1;", "redo(RdV);", "x = do_it(RsV);", "while_0 = 3;", "fNEST(RdV);", "fUSER(RsV);",
              "if (RsV) { fWRAP(RdV = 5); }", "fDUP(RsV);", "fUO(RsV);", "RdV = fUO(RtV) + fUO3(1);"]


def build_model(draw, st):
    """a macro model: ordered list of (name, params, body, where) with duplicates; patches; shortcode"""
    base = [
        ("fA", "(X)", "(A1(X))"), ("fB", "(X, Y)", "do { B1(X); B2(Y); } while (0)"), ("fC", "(X)", "((X) << 1)"),
        ("OBJ", "", "0x10"), ("fWRAP", "(S)", "do { S; } while (0)"),
        ("fWRAP2", "(A, B)", "do { fWRAP(RdV = A); fWRAP(RdV = B); } while (0)"),
        ("fNEST", "(V)", "do { do { V = 1; } while (0); V = 2; } while (0)"), ("fDUP", "(X)", "first_definition(X)"),
    ]
    macros = []
    for name, params, body in base:
        where = draw(st.sampled_from(["macros.inc", "macros.h", "macros_mmvec.h"]))
        macros.append((name, params, body, where))
    # macros guarded by CONFIG_USER_ONLY (never defined here): the #else branch is the one C takes
    macros.append(("fUO", "(X)", "system_version(X)", draw(st.sampled_from(["macros.h#uo", "macros.inc#uo"]))))
    macros.append(("fUO3", "(X)", "((X) + sys3)", "macros.h#uo"))
    # duplicates (a later definition of the same name in another/same file)
    ndup = draw(st.integers(0, 2))
    for _ in range(ndup):
        name, params, body, _w = draw(st.sampled_from(macros[:8]))
        macros.append((name, params, "dup_" + body if not body.startswith("do") else body.replace("} while", " D(); } while"),
                       draw(st.sampled_from(["macros.h", "macros_mmvec.h"]))))
    # patches: replace 0..3 macros, add user-only ones
    patch = {}
    for name, params, body, _w in draw(st.lists(st.sampled_from(macros[:8]), max_size=3, unique_by=lambda m: m[0])):
        patch[name] = (params, "patched_" + name + ("(" + params.strip("()").split(",")[0] + ")" if params else ""))
    patch["fUSER"] = ("(Z)", "do { user(Z); } while (0)")
    patch["DEF_SHORTCODE"] = ("(TAG, SHORTCODE)", "insn(TAG, SHORTCODE)")
    ninsn = draw(st.integers(1, 4))
    insns = []
    for i in range(ninsn):
        atoms = draw(st.lists(st.sampled_from(BODY_ATOMS), min_size=1, max_size=4))
        insns.append((f"X{i}_insn", "{ " + " ".join(atoms) + " }"))
    return macros, patch, insns


def write_files(draw, st, macros, patch, insns):
    files = {"macros.inc": [], "macros.h": [], "macros_mmvec.h": []}
    for name, params, body, where in macros:
        style = draw(st.integers(0, 4))
        if where.endswith("#uo"):
            files[where.split("#")[0]] += ["#ifdef CONFIG_USER_ONLY", f"#define {name}{params} user_only_version_of_{name}(X)",
                                           "#define fUO_ONLY_USER(X) nothing(X)", "#else", f"#define {name}{params} {body}", "#endif"]
            continue
        lines = files[where]
        if style == 1:
            lines.append("// a comment line")
        if style == 2:
            lines.append("/* block comment */")
            lines.append(" * continued comment")
        if style == 3 and " " in body:
            h, t = body.split(" ", 1)
            lines.append(f"#define {name}{params} {h} \\")
            lines.append(f"    {t}")
            continue
        if style == 4:
            # a continuation line that starts with an indented block comment followed by code (QEMU macros.h style)
            lines.append(f"#define {name}{params} \\")
            lines.append(f"    /* {name} body */ {body}")
            continue
        lines.append(f"#define {name}{params} {body}")
    # decoys inside a QEMU_GENERATE block (must be ignored for macros.h / macros.inc)
    k = 0 if (files["macros.h"] and files["macros.h"][0].startswith("#ifdef")) else 1   # never split a guarded block
    files["macros.h"] = ["#ifndef GUARD_H", "#define GUARD_H 1", "#include \"x.h\"", "#ifdef QEMU_GENERATE",
                         "#define fA(X) qemu_generate_version(X)", "#else"] + files["macros.h"][:k] + ["#endif"] + \
                        files["macros.h"][k:] + ["#endif"]
    pl = ["// patches"]
    for name, (params, body) in patch.items():
        if draw(st.booleans()) and " " in body:
            h, t = body.split(" ", 1)
            pl.append(f"#define {name}{params} {h} \\")
            pl.append(f"  {t}")
        else:
            pl.append(f"#define {name}{params} {body}")
    sc = [f"DEF_SHORTCODE({n}, {b})" for n, b in insns]
    return {"macros.inc": "\n".join(files["macros.inc"]) + "\n", "macros.h": "\n".join(files["macros.h"]) + "\n",
            "macros_mmvec.h": "\n".join(files["macros_mmvec.h"]) + "\n", "patches_macros.h": "\n".join(pl) + "\n",
            "shortcode.h": "\n".join(sc) + "\n"}


def expected_header(macros, patch, insns):
    """independent 'patched macro set': each patch replaces all definitions of its macro, user-only patches added,
    unpatched macros keep their definitions in file order (inc, macros.h, mmvec) - a later duplicate wins in cpp"""
    order = {"macros.inc": 0, "macros.h": 1, "macros_mmvec.h": 2}
    ms = sorted(enumerate(macros), key=lambda im: (order[im[1][3].split("#")[0]], im[0]))
    lines = []
    done = set()
    seen_unpatched = {}
    for _, (name, params, body, where) in ms:
        if name in patch:
            if name not in done:
                lines.append(f"#define {name}{patch[name][0]} {patch[name][1]}")
                done.add(name)
        else:
            if name in seen_unpatched:
                lines.append(f"#undef {name}")
            seen_unpatched[name] = 1
            lines.append(f"#define {name}{params} {body}")
    for name, (params, body) in patch.items():
        if name not in done:
            lines.insert(0, f"#define {name}{params} {body}")
    lines.append("#define GUARD_H 1")
    return "\n".join(lines) + "\n" + "\n".join(f"DEF_SHORTCODE({n}, {b})" for n, b in insns) + "\n"


def generated_part(n, seed):
    import hypothesis
    from hypothesis import given, settings, Phase, strategies as st
    p = run.Part()

    @hypothesis.seed(seed)
    @settings(max_examples=n, database=None, deadline=None, phases=[Phase.generate],
              suppress_health_check=list(hypothesis.HealthCheck))
    @given(st.data())
    def prop(data):
        macros, patch, insns = build_model(data.draw, st)
        files = write_files(data.draw, st, macros, patch, insns)
        d, pp = scratch_repo(files)
        try:
            try:
                run_pipeline(d)
            except Exception as e:
                p.failure("C20 pipeline raises on a generated macro set", {"files": files, "error": f"{type(e).__name__}: {e}"[:300]})
                return
            got_text = open(os.path.join(pp, "shortcode_resolved.h")).read()
            exp_path = os.path.join(pp, "expected.h")
            open(exp_path, "w").write(expected_header(macros, patch, insns))
            want_text = gcc_E(exp_path, pp)
        finally:
            shutil.rmtree(d, ignore_errors=True)
        got, gorder = insn_lines(got_text)
        want, worder = insn_lines(want_text)
        p.ev()
        dup_patched = any(sum(1 for m in macros if m[0] == nm) >= 2 for nm in patch)
        if gorder != [n_ for n_, _ in insns]:
            p.failure("C20 generated: instruction names not preserved", {"files": files, "got": gorder})
            return
        for n_, body in insns:
            w = remove_do_while0(toks(want.get(n_, "")))
            g = toks(got.get(n_, ""))
            nwrap = toks(want.get(n_, "")).count("do")
            if dup_patched or nwrap >= 2:
                p.nontriv((n_, body, tuple(sorted(patch)), tuple(m[0] for m in macros)))
            if w != g:
                look = any(x in body for x in ("undo", "redo", "do_it", "while_0"))
                cls = "look-alike identifier" if look and all(t_ in " ".join(w) for t_ in ()) else "resolution"
                p.failure(f"C20 generated: resolved body differs from standard preprocessing ({'with' if look else 'without'} "
                          f"do/while look-alikes)", {"insn_body": body, "repo": " ".join(g)[:300], "expected": " ".join(w)[:300],
                                                     "files": files})
        p.sample({"shortcode": files["shortcode.h"][:200], "patches": sorted(patch)}, cap=2)

    prop()
    return p.d


def dowhile_part(n, seed):
    """replace_do_while_0 as a pure function on generated single-line strings"""
    import hypothesis
    from hypothesis import given, settings, Phase, strategies as st
    from rzilcompiler.Preprocessor.Hexagon.PreprocessorHexagon import PreprocessorHexagon as PH
    p = run.Part()
    atom = st.sampled_from(["RdV = 1;", "f(a, b);", "x;", "if (c) { y; }", "{ z; }"])
    # look-alikes that are valid C (an identifier containing "do", a while loop whose condition is not literally 0)
    look = st.sampled_from(["undo = 1;", "redo = undo;", "do_not(x);", "while (00) { y; }", "dodo;", "todo(w);", "x = a_do;",
                            "if (undo) { z; }", "while (0x0) { }"])

    def wrap(inner, sp):
        return f"do{sp[0]}{{{inner}}}{sp[1]}while{sp[2]}(0)"

    sps = st.tuples(st.sampled_from(["", " ", "  "]), st.sampled_from(["", " "]), st.sampled_from(["", " ", "\t"]))

    @st.composite
    def piece(draw, depth):
        k = draw(st.sampled_from(["atom", "atom", "wrap", "seq"] if depth > 0 else ["atom"]))
        if k == "atom":
            return draw(atom)
        if k == "wrap":
            return wrap(" " + draw(piece(depth - 1)) + " ", draw(sps)) + ";"
        return draw(piece(depth - 1)) + " " + draw(piece(depth - 1))

    @hypothesis.seed(seed)
    @settings(max_examples=n, database=None, deadline=None, phases=[Phase.generate],
              suppress_health_check=list(hypothesis.HealthCheck))
    @given(piece(3), st.booleans(), look)
    def prop(body, with_look, lk):
        code = "insn(X, { " + body + (" " + lk if with_look else "") + " })"
        p.ev()
        try:
            got = PH.replace_do_while_0(code)
        except Exception as e:
            p.failure("C20 replace_do_while_0 raises", {"code": code, "error": str(e)})
            return
        want = remove_do_while0(toks(code))
        if code.count("do") >= 2:
            p.nontriv(code)
        if toks(got) != want:
            p.failure(f"C20 replace_do_while_0 differs from brace-matching removal ({'with' if with_look else 'without'} look-alikes)",
                      {"code": code, "got": got.strip(), "expected": " ".join(want)})
        p.sample({"code": code}, cap=2)

    prop()
    return p.d


def run_check(ctx):
    ctx.rule = ("all 2181 bundled definitions (regeneration, independent gcc -E + brace-matching remover, patch bookkeeping, surviving "
                "macros) + Hypothesis macro/patch/shortcode sets run through the real pipeline in scratch repositories + "
                "replace_do_while_0 on generated strings; non-trivial = bundled body with a do-while wrapper or > 30 tokens, generated "
                "set with a patched macro that had >= 2 definitions or a body with >= 2 wrappers")
    ctx.assumptions = ["gcc -E -P is the independent standard preprocessor (18 bundled HVX store macros use an invalid ## paste; gcc "
                       "still emits their lines and they are compared as well)", "generated files stay within the shapes the bundled "
                       "files use (one-line defines, continuations, // and /* */ comment lines, QEMU_GENERATE blocks, guards)"]
    if shutil.which("gcc") is None:
        raise run.HarnessError("gcc not available")
    for f in ctx.findings:
        if f.get("status") == "open" and "code" in f.get("witness", {}):
            ok, msg = replay(f["witness"])
            ctx.evaluations += 1
            if not ok:
                ctx.known_hit[f["id"]] = f
    run.run_sharded(ctx, bundled_part, [()], procs=1)
    n1, n2 = (1600, 200000) if ctx.tier == "thorough" else (96, 8000)
    run.run_sharded(ctx, generated_part, [(n1 // 16, run.sub_seed(ctx.seed, "c20g", i)) for i in range(16)])
    run.run_sharded(ctx, dowhile_part, [(n2 // 16, run.sub_seed(ctx.seed, "c20d", i)) for i in range(16)])


def replay(rep):
    from rzilcompiler.Preprocessor.Hexagon.PreprocessorHexagon import PreprocessorHexagon as PH
    if "code" in rep:
        got = PH.replace_do_while_0(rep["code"])
        want = remove_do_while0(toks(rep["code"]))
        return (toks(got) == want), f"replay: got {got.strip()!r} expected {' '.join(want)!r}"
    return False, "replay: see the files in the replay record"
