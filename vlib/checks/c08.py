"""C08 - sub-routine calls follow the C calling convention and isolate the callee.

Hypothesis generates sub-routines (parameter/return types over the integer types, locals, branches, loops, tail
returns in every arm, calls to earlier generated routines), registers them through the public add_sub_routine API
on a live compiler between other compilations, and generates callers with 1..4 calls per statement (nested calls,
calls in ?: arms and conditions). Caller + callee bodies are executed together by the RzIL interpreter (callee text
from il_init(DEF), flat local namespace) and compared with the reference C evaluator (real call semantics).
Two histories: a long-lived compiler and a fresh one (temporary numbering from 0).
"""
import os

from .. import boot, run, diff, gen, progcheck, staticrun
from ..cref import show, operands_closure
from ..il import reader

CALLEE_FEATURES = frozenset({"cond", "cast", "unary", "shift", "if", "loop", "logical"})
CALLER_FEATURES = frozenset({"cond", "cast", "unary", "shift", "if", "imm", "hyb_call", "calls_mixed_tmp_width", "macro"})

_counter = [0]
RET_RAW = [False]


def fresh_name():
    _counter[0] += 1
    return f"c08_{os.getpid()}_{_counter[0]}"


def register(c, spec):
    with boot.quiet():
        c.add_sub_routine(spec.name, spec.c_ret(), spec.c_params(), spec.c_body())


def worker(nprog, nstates, seed, fresh_every, enable):
    import hypothesis
    from hypothesis import given, settings, Phase, strategies as st
    p = run.Part()
    RET_RAW[0] = "ret_narrow_signed" in enable
    long_lived = boot.compiler()
    ex = progcheck.Explorer(p, "C08", compiler=long_lived)
    state = {"n": 0, "fresh": None, "fresh_ex": None}
    callee_feats = CALLEE_FEATURES | (frozenset({"narrow"}) if "narrow_callee" in enable else frozenset())

    @hypothesis.seed(seed)
    @settings(max_examples=nprog, database=None, deadline=None, phases=[Phase.generate],
              suppress_health_check=list(hypothesis.HealthCheck))
    @given(st.data())
    def prop(data):
        use_fresh = bool(fresh_every) and data.draw(st.integers(0, fresh_every - 1)) == 0
        specs = []
        nsubs = data.draw(st.integers(1, 2))
        # on a fresh compiler callee bodies must not contain temporaries (listed finding: h_tmp collision)
        for i in range(nsubs):
            feats = callee_feats
            earlier = tuple(specs) if (not use_fresh or "fresh_collision" in enable) else ()
            if use_fresh and "fresh_collision" not in enable:
                feats = feats - {"loop"}     # `c++` loop steps create callee temporaries
            if "nontail_return" in enable:
                feats = feats | {"nontail_return"}
            spec = data.draw(gen.subroutine(feats, fresh_name(), earlier, prefix_locals="shared_local_names" not in enable))
            spec = normalize_spec(spec)
            specs.append(spec)
        if use_fresh:
            c = boot.new_compiler()
            e2 = progcheck.Explorer(p, "C08", compiler=c)
            p.count("history:fresh compiler")
        else:
            c, e2 = long_lived, ex
            p.count("history:long-lived compiler")
        # interleave an unrelated compilation before registration (registration at any time)
        if data.draw(st.booleans()):
            progcheck.try_compile(c, "{ RdV = RsV + 1; }")
        try:
            for s in specs:
                register(c, s)
        except Exception as e:
            p.count("sub-routine rejected:" + type(e).__name__)
            return
        for s in specs:
            e2.extra_subs[s.name] = s.subdef
        # caller
        env = data.draw(gen.env_strategy(CALLER_FEATURES))
        env.subs = dict(gen.default_subs())
        for s in specs:
            env.subs[s.name] = s.subdef
        env.call_family = [s.name for s in specs]
        body = []
        for _ in range(data.draw(st.integers(1, 3))):
            body.append(data.draw(gen.assign_stmt(env, 2, True)))
        if not any(n and n[0] == "call" for n in __import__("vlib.cref", fromlist=["walk"]).walk(body)):
            # make sure the caller calls: dst = f(..) + g(..)
            def mkcall(s):
                # a third of the value arguments is directly a macro invocation (its C type is the macro's return type)
                return ("call", s.name, [data.draw(gen.macro_call(env, 1)) if data.draw(st.integers(0, 2)) == 0
                                         else data.draw(gen.leaf(env)) for _ in s.params])
            e = mkcall(specs[0])
            for s in specs[1:] + ([specs[0]] if data.draw(st.booleans()) else []):
                e = ("bin", data.draw(st.sampled_from(["+", "^", "-"])), e, mkcall(s))
            body.append(("expr", ("assign", "=", ("opnd", env.dsts[0]), e)))
        body = gen.normalize(body, CALLER_FEATURES | frozenset(enable), env.subs, {})
        ncalls = sum(1 for n in __import__("vlib.cref", fromlist=["walk"]).walk(body) if n and n[0] == "call")
        comp, text, il = e2.compile(body)
        if comp is None:
            p.count("caller rejected")
            return
        if isinstance(comp, tuple):
            p.failure("C08 il-unreadable", {"program": text, "error": comp[1]})
            return
        p.count(f"calls in caller:{min(ncalls, 4)}")
        ops = operands_closure(body, e2.all_subs())
        try:
            strat = diff.state_strategy(ops)
        except diff.Discard as e:
            p.discard(e.why)
            return
        states = [data.draw(strat) for _ in range(nstates)]
        before = len(e2.raw_fail)
        judged = e2.run_states(body, comp, states)
        # attach callee sources to the failures of this example
        for i in range(before, len(e2.raw_fail)):
            k, stmts, stt, detail = e2.raw_fail[i]
            e2.raw_fail[i] = (k, stmts, stt, {"detail": detail, "subs": [(s.name, s.c_ret(), s.c_params(), s.c_body()) for s in specs],
                                             "fresh_compiler": bool(use_fresh)})
        if judged and ncalls >= 2:
            p.nontriv(text + "".join(s.c_body() for s in specs))
        p.sample({"caller": text, "subs": [f"{s.c_ret()} {s.name}({', '.join(s.c_params())}) {s.c_body()}" for s in specs]}, cap=2)
        if use_fresh:
            finish(e2, p)

    prop()
    finish(ex, p)
    return p.d


def normalize_spec(spec):
    body = gen.normalize(spec.body, CALLEE_FEATURES, None, {}, {n: t for t, n in spec.params})
    # `return e;` converts e to the declared return type: exclude the listed class (narrower signed value returned
    # from a wider type / signed -> wider unsigned) by an explicit cast through the signed type of the return width
    from ..cref.typer import type_of
    vt = {n: t for t, n in spec.params}

    from ..cref import walk
    for n in walk(body):
        if n and n[0] == "decl":
            vt[n[2]] = n[1]
    subs_all = gen.default_subs()

    def fix(s):
        if s[0] == "return" and s[1] is not None:
            try:
                te = type_of(s[1], vt, subs_all)
            except Exception:
                te = (True, 8)
            if te[0] and te[1] < spec.ret[1] and not RET_RAW[0]:
                # listed class: a signed value narrower than the return type is zero-extended by `return`
                return ("return", ("cast", (True, spec.ret[1]), s[1]))
            return s
        if s[0] == "block":
            return ("block", [fix(x) for x in s[1]])
        if s[0] == "if":
            return ("if", s[1], fix(s[2]), None if s[3] is None else fix(s[3]))
        return s
    ns = gen.SubSpec(spec.name, spec.ret, spec.params, [fix(s) for s in body])
    from ..cref import make_subdef
    ns.subdef = make_subdef(ns.name, ns.c_ret(), ns.c_params(), ns.c_body())
    return ns


def finish(ex, p):
    """register failures without structural shrinking of the callee (the caller is small by construction)"""
    seen = set()
    for kind, stmts, stt, info in ex.raw_fail:
        text = show.program(stmts)
        sig = f"C08 {kind} fresh={info['fresh_compiler']}"
        key = (sig, len(text))
        p.failure(sig, {"program": text, "state": stt, "kind": kind, "detail": info["detail"], "subs": info["subs"],
                        "fresh_compiler": info["fresh_compiler"]})
    ex.raw_fail = []


# callees whose `return` / body shape goes beyond what the generator produces: (tag, ret, params, body, caller)
SEMANTIC_TEMPLATES = [
    ("retpostinc", "int32_t", ["int32_t x"], "{ int32_t q = x; return q++; }", "{ RdV = @(RsV) + 1; }"),
    ("retpostdec", "uint32_t", ["uint32_t x"], "{ uint32_t q = x + 3; q = q * 2; return q--; }", "{ RdV = @(RsV); ReV = @(RtV); }"),
    ("retcall", "uint32_t", ["uint32_t x"], "{ uint32_t q = ~x; return clz32(q); }", "{ RdV = @(RsV); }"),
    ("retcallexpr", "uint32_t", ["uint32_t x"], "{ uint32_t q = x; q = q + 1; return clz32(q) + q; }", "{ RdV = @(RsV); }"),
    ("incthenret", "int32_t", ["int32_t x"], "{ int32_t q = x; q++; return q + 1; }", "{ RdV = @(RsV) - @(RtV); }"),
    ("loopret", "uint32_t", ["uint32_t n"], "{ uint32_t acc = 1; for (i = 0; i < (n & 3); i++) { acc = acc * 3; } return acc++; }", "{ RdV = @(RsV); }"),
    ("argpostinc", "int32_t", ["int32_t x"], "{ return x + 1; }", "{ int32_t k = RsV; RdV = @(k++); ReV = k; }"),
    ("nested", "int32_t", ["int32_t x"], "{ return x * 2; }", "{ RdV = @(@(RsV) + 1); }"),
    # a call in the discarded arm of a constant ?: must not disturb the temporaries of the calls that stay
    ("deadarm0", "int32_t", ["int32_t x"], "{ return x * 2 + 1; }", "{ RdV = (0 ? @(RsV) : @(RtV)) + @(RuV); }"),
    ("deadarm1", "int32_t", ["int32_t x"], "{ return x * 3; }", "{ RdV = ((1 == 2) ? @(RsV) : @(RtV)) - @(RuV); ReV = @(RsV) + (1 ? 4 : @(RtV)) + @(RuV); }"),
    ("deadarm2", "uint32_t", ["uint32_t x"], "{ uint32_t q = x + 1; return (0 ? clz32(q) : clo32(q)) + clz32(x); }", "{ RdV = @(RsV); }"),
]


def semantic_templates(ctx):
    from ..cref import make_subdef
    c = boot.compiler()
    subs = dict(diff.bundled_subs())
    for tag, ret, params, body, caller in SEMANTIC_TEMPLATES:
        name = f"c08t_{tag}_{os.getpid()}"
        try:
            with boot.quiet():
                c.add_sub_routine(name, ret, params, body)
        except Exception:
            ctx.count("semantic template callee rejected")
            continue
        subs[name] = make_subdef(name, ret, params, body)
        text = caller.replace("@", name)
        resolver = diff.make_resolver(c)
        st, il = progcheck.try_compile(c, text)
        if st != "ok":
            ctx.count("semantic template caller rejected")
            continue
        ast = diff.parse_c(text)
        il_body = reader.parse_body(il)
        for stt in diff.simple_states(operands_closure(ast, subs), 6, 17):
            ctx.evaluations += 1
            r, _ = progcheck.judge_state(ast, il_body, stt, resolver, subs)
            if r is None:
                ctx.nontriv(("semantic-template", tag, run.h64(stt)))
                continue
            if r[0] == "discard":
                ctx.discard(r[1])
                continue
            ctx.failure(f"C08 template callee {tag}: {r[0]}", {"program": text.replace(name, "c08t_" + tag), "state": stt, "detail": r[1],
                                                                "subs": [("c08t_" + tag, ret, params, body)], "fresh_compiler": False})
            break


def definition_part(ctx):
    """the emitted *definition* of a callee must be a function the caller can call: a body that reads registers, the
    program counter, immediates or the slot gets the packet / instruction variables it uses (template callees through the
    public API, judged by the C-body checker that C11 uses)"""
    from .. import staticrun
    from .static_common import SUB_TEMPLATES
    c = boot.new_compiler("stmt")
    resolver = diff.make_resolver(c)
    subinfo = staticrun.SubInfo()
    for tag, ret, params, body in SUB_TEMPLATES:
        name = f"c08d_{tag}_{os.getpid()}"
        ctx.evaluations += 1
        try:
            with boot.quiet():
                c.add_sub_routine(name, ret, params, body)
        except Exception:
            ctx.count("callee template rejected")
            continue
        subinfo.add(name, ret, params, body)
        ctx.nontriv(("callee-definition", tag))
        kinds = {}
        for kind, msg in staticrun.subroutine_issues("C11", c, name, subinfo, resolver):
            kinds.setdefault(kind, msg)
        for kind, msg in kinds.items():
            ctx.failure(f"C08 callee definition is not a valid function: {kind} [{tag}]", {"callee": tag, "body": body, "issue": msg})


def callsite_part(ctx):
    """register arguments are passed as `const HexOp *`: whatever kind of register is named at the call site, the emitted
    call must hand over a pointer to a declared operand (judged by the C-body checker on the caller's text)"""
    from ..il import static
    c = boot.new_compiler("stmt")
    name = f"c08r_ref_{os.getpid()}"
    try:
        with boot.quiet():
            c.add_sub_routine(name, "int32_t", ["HexInsnPktBundle *bundle", "const HexOp *RxV", "int32_t v"], "{ RxV = RxV + v; return v; }")
    except Exception:
        ctx.count("by-reference callee rejected")
        return
    for reg in ["RxV", "RyV", "R31", "R2", "R29", "HEX_REG_ALIAS_LR", "HEX_REG_ALIAS_SP", "R1:0", "P0", "C5", "NsN", "RxV"]:
        for caller in ("{ RdV = @(bundle, $, 4); }", "{ if (RsV) { ReV = @(bundle, $, RtV) + 1; } }"):
            text = caller.replace("@", name).replace("$", reg)
            ctx.evaluations += 1
            st, il = progcheck.try_compile(c, text)
            if st != "ok":
                ctx.count("by-reference call rejected")
                continue
            ctx.nontriv(("callsite", reg, caller))
            try:
                body = reader.parse_body(il)
            except reader.ReadError as e:
                ctx.failure(f"C08 call site text unreadable [{reg}]", {"program": text.replace(name, "c08r_ref"), "error": str(e)[:200]})
                continue
            kinds = {}
            for kind, msg in static.check_c_body(body, params=["bundle"]):
                kinds.setdefault(kind, msg)
            for kind, msg in kinds.items():
                ctx.failure(f"C08 call site is not valid C: {kind} [{reg}]", {"program": text.replace(name, "c08r_ref"), "issue": msg, "il": il})


def run_check(ctx):
    ctx.rule = ("Hypothesis: 1-2 generated sub-routines registered through add_sub_routine + a caller with 1..4 calls per statement "
                "x generated states, on a long-lived and (every 8th example) a fresh compiler; the 13 bundled routines are covered "
                "by C01's callers; non-trivial = distinct (caller, callees) with >= 2 calls that was judged")
    ctx.assumptions = ["callee bodies are executed in the flat IL namespace with parameters bound to the argument terms",
                       "classes of listed findings excluded by construction: non-tail return, narrower signed return value, "
                       "callee temporaries on a fresh compiler"]
    enable = progcheck.replay_known(ctx, replay_fn=replay)
    n, ns = (6000, 8) if ctx.tier == "thorough" else (320, 5)
    run.run_sharded(ctx, worker, [(n // 16, ns, run.sub_seed(ctx.seed, "c08", i), 8, frozenset(enable)) for i in range(16)])
    definition_part(ctx)
    semantic_templates(ctx)
    callsite_part(ctx)
    for k in ("history:fresh compiler", "history:long-lived compiler"):
        if not ctx.classes.get(k):
            raise run.HarnessError("no example for " + k)


def replay(rep):
    from ..cref import make_subdef
    c = boot.new_compiler() if rep.get("fresh_compiler") else boot.compiler()
    subs = dict(diff.bundled_subs())
    for name, ret, params, body in rep.get("subs", []):
        uniq = name
        if name in c.sub_routines:
            pass
        with boot.quiet():
            c.add_sub_routine(uniq, ret, params, body)
        subs[uniq] = make_subdef(uniq, ret, params, body)
    resolver = diff.make_resolver(c)
    st, il = progcheck.try_compile(c, rep["program"])
    if st != "ok":
        return True, "replay: rejected now " + il
    r, _ = progcheck.judge_state(diff.parse_c(rep["program"]), reader.parse_body(il), rep["state"], resolver, subs)
    if r is None or r[0] == "discard":
        return True, f"replay: {r}"
    return False, f"replay: {r}"
