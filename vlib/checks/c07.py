"""C07 - operands are bound to the right architectural resource, width and .new flag.

Exhaustive table of operand spellings (built from QEMU's naming conventions, not from the grammar): register
class x access letter x single/pair x V/N, explicit registers (+_NEW), aliases (+_NEW), immediate letters,
loads/stores of every width/sign, JUMP with targets of every width, the PC alias - each in a read context, a write
context where the access letter allows it, and read-after-write for d/x operands. Each accepted program is
(a) executed by the reference evaluator (architectural table -> slot, width, sign, bank) and by the RzIL
interpreter over generated bank values (the two banks differ for .new spellings; top bits set), and (b) checked
statically: operand-descriptor terms carry the expected letter/number/class/alias and .new flag.
"""
import itertools
import re

from .. import boot, run, diff, progcheck
from ..machine import UnknownSlot
from ..cref import operands_closure
from ..cref.ast import classify, ALIAS_64
from ..il import reader

ALIASES = ["SA0", "LC0", "SA1", "LC1", "P3_0", "M0", "M1", "USR", "UGP", "GP", "CS0", "CS1", "UPCYCLELO",
           "UPCYCLEHI", "UPCYCLE", "FRAMELIMIT", "FRAMEKEY", "PKTCOUNTLO", "PKTCOUNTHI", "PKTCOUNT", "UTIMERLO",
           "UTIMERHI", "UTIMER", "SP", "FP", "LR"]
EXPLICIT = ["R0", "R1", "R2", "R3", "R31", "R30", "R13", "R1:0", "R3:2", "R31:30", "P0", "P1", "P2", "P3", "C0", "C1",
            "C3", "C1:0", "C3:2", "M0", "M1", "R11", "R22", "R10", "R23", "C11", "C13", "R11:10", "R23:22",
            "R29", "R7", "R15", "R4", "R9:8", "R17:16", "C5", "C7:6", "C9"]


def obs_for(o):
    """destination used to observe a read of operand o (must not share o's slot letter)"""
    avoid = o.slot.split(":")[1] if o.slot.startswith(("isa:", "nreg:")) else ""
    return "RxxV" if avoid == "d" else "RddV"


def spelling_cells():
    cells = []   # (cell name, program text)
    # lettered registers
    for cls in "RPCMN":
        groups = [("s", "r"), ("t", "r"), ("u", "r"), ("v", "r"), ("w", "r"), ("d", "w"), ("e", "w"), ("x", "rw"), ("y", "rw"),
                  ("z", "rw"), ("ss", "r"), ("tt", "r"), ("uu", "r"), ("vv", "r"), ("dd", "w"), ("xx", "rw"), ("yy", "rw")]
        for letters, acc in groups:
            for vn in "VN":
                tok = f"{cls}{letters}{vn}"
                o = classify(tok)
                if o is None:
                    continue
                if cls == "N" and (vn == "V" or acc != "r" or len(letters) > 1):
                    continue    # QEMU only ever spells new-value operands as N<src letter>N
                obs = obs_for(o)
                wide = o.width == 64
                src = "RttV" if letters[0] != "t" else "RssV"
                rd = f"{obs} = {tok};" if wide else f"{obs} = (int64_t){tok};"
                if acc in ("r", "rw"):
                    cells.append((f"read {tok}", f"{{ {rd} }}"))
                    cells.append((f"read-arithmetic {tok}", f"{{ {obs} = (int64_t)({tok} + 1); ReV = ({tok} == 3); }}"))
                if acc == "w":
                    cells.append((f"read-unwritten-dest {tok}", f"{{ {rd} }}"))
                if vn == "V" and acc in ("w", "rw"):
                    cells.append((f"write {tok}", f"{{ {tok} = {src}; }}"))
                    cells.append((f"write-then-read {tok}", f"{{ {tok} = {src}; {obs} = (int64_t)({tok} + 1); }}"))
                    if acc == "rw":
                        cells.append((f"read-modify {tok}", f"{{ {tok} = {tok} + {src}; }}"))
    for e in EXPLICIT:
        for new in ("", "_NEW"):
            tok = e + new
            o = classify(tok)
            rd = f"RddV = {tok};" if o and o.width == 64 else f"RddV = (int64_t){tok};"
            cells.append((f"read {tok}", f"{{ {rd} }}"))
            cells.append((f"read-arithmetic {tok}", f"{{ RddV = (int64_t)({tok} + 1); ReV = ({tok} == 3); }}"))
            if not new:
                cells.append((f"write {tok}", f"{{ {tok} = RttV; }}"))
                cells.append((f"write-then-read {tok}", f"{{ {tok} = RttV; RddV = (int64_t)({tok} + 1); }}"))
    for a in ALIASES:
        for new in ("", "_NEW"):
            tok = f"HEX_REG_ALIAS_{a}{new}"
            wide = a in ALIAS_64
            rd = f"RddV = {tok};" if wide else f"RddV = (int64_t){tok};"
            cells.append((f"read {tok}", f"{{ {rd} }}"))
            cells.append((f"read-arithmetic {tok}", f"{{ RddV = (int64_t)({tok} + 1); ReV = ({tok} == 3); }}"))
            if not new:
                cells.append((f"write {tok}", f"{{ {tok} = RttV; }}"))
                cells.append((f"read-then-write {tok}", f"{{ RddV = (int64_t){tok}; {tok} = RttV; }}"))
    cells.append(("read HEX_REG_ALIAS_PC", "{ RddV = (int64_t)HEX_REG_ALIAS_PC; }"))
    cells.append(("read HEX_REG_ALIAS_PC + imm", "{ RdV = HEX_REG_ALIAS_PC + riV; }"))
    for l in "rRsSuUmn":
        cells.append((f"read imm {l}iV", f"{{ RddV = (int64_t){l}iV; }}"))
        cells.append((f"imm {l}iV arithmetic", f"{{ RddV = (int64_t)({l}iV >> 1); ReV = {l}iV + RsV; }}"))
        cells.append((f"assign imm {l}iV", f"{{ {l}iV = {l}iV & ~3; RddV = (int64_t){l}iV; }}"))
    for sg, bits in itertools.product("su", (8, 16, 32, 64)):
        t = f"{'' if sg == 's' else 'u'}int{bits}_t"
        cells.append((f"load mem_load_{sg}{bits}", f"{{ RddV = (int64_t)(({t})mem_load_{sg}{bits}(RsV)); }}"))
        cells.append((f"load mem_load_{sg}{bits} EA+imm", f"{{ EA = RsV + siV; RddV = (int64_t)(({t})mem_load_{sg}{bits}(EA)); }}"))
        cells.append((f"store mem_store_{sg}{bits}", f"{{ mem_store_{sg}{bits}(RsV, RttV); }}"))
        # the load's own type decides how it is widened when no cast wraps it
        cells.append((f"bare load mem_load_{sg}{bits} to pair", f"{{ RddV = mem_load_{sg}{bits}(RsV); }}"))
        cells.append((f"bare load mem_load_{sg}{bits} to reg", f"{{ ReV = mem_load_{sg}{bits}(RsV); }}"))
        cells.append((f"bare load mem_load_{sg}{bits} to local", f"{{ int64_t t = mem_load_{sg}{bits}(RsV); int64_t w; w = mem_load_{sg}{bits}(RsV + 8); RddV = t ^ (w >> 1); }}"))
        cells.append((f"store mem_store_{sg}{bits} EA", f"{{ EA = RsV + uiV; mem_store_{sg}{bits}(EA, RttV); RddV = (int64_t)(({t})mem_load_{sg}{bits}(EA)); }}"))
    for name, e in (("u8", "(uint8_t)RsV"), ("s8", "(int8_t)RsV"), ("u16", "(uint16_t)RsV"), ("s16", "(int16_t)RsV"),
                    ("s32", "RsV"), ("u32", "(uint32_t)RsV"), ("s64", "RttV"), ("u64", "(uint64_t)RttV"),
                    ("imm", "riV"), ("pc+imm", "HEX_REG_ALIAS_PC + riV"), ("alias", "HEX_REG_ALIAS_LR")):
        cells.append((f"jump {name}", f"{{ JUMP({e}); }}"))
        cells.append((f"conditional jump {name}", f"{{ if (PuV & 1) {{ JUMP({e}); }} }}"))
    return cells


def static_descriptor_issues(ast, body):
    """every operand-descriptor declaration must name the expected letter/number/class/alias and .new flag;
    a READ_REG of a pure source operand (never written) must use the operand's own .new flag"""
    from ..cref import operands_of, walk
    issues = []
    ops = {o.slot: o for o in operands_of(ast) if o.kind in ("reg", "expl", "alias", "nreg")}
    written = set()
    for n in walk(ast):
        if n and n[0] in ("assign", "post") and n[2][0] == "opnd":
            written.add(n[2][1].slot)
    opvars = {}
    for d in body.decls:
        if d.kind in ("op", "opptr") and d.term[0] == "call":
            f, a = d.term[1], d.term[2]
            slot = None
            flag = None
            try:
                if f == "ISA2REG":
                    slot, flag = "isa:" + a[1][1], a[2][1]
                elif f == "EXPLICIT2OP":
                    slot, flag = f"expl:{a[1][1].replace('HEX_REG_CLASS_', '')}:{a[0][1]}", a[2][1]
                elif f == "ALIAS2OP":
                    slot, flag = "alias:" + a[0][1].replace("HEX_REG_ALIAS_", ""), a[1][1]
                elif f == "NREG2OP":
                    slot, flag = "nreg:" + a[1][1], "true"
            except (IndexError, TypeError):
                issues.append(("descriptor-shape", f"{d.name} = {reader.show(d.term)}"))
                continue
            opvars[d.name] = (slot, flag)
            if slot not in ops:
                issues.append(("descriptor-resource", f"{d.name} = {reader.show(d.term)} names {slot}; the text names {sorted(ops)}"))
                continue
            want = "true" if ops[slot].new else "false"
            if flag != want:
                issues.append(("descriptor-new-flag", f"{d.name} = {reader.show(d.term)}: .new flag {flag}, expected {want}"))
    for d in body.decls:
        for t in reader.walk(d.term):
            if t[0] == "call" and t[1] == "READ_REG" and len(t[2]) == 3:
                opn = t[2][1][1] if t[2][1][0] in ("id", "addr") else None
                if opn in opvars:
                    slot, _ = opvars[opn]
                    o = ops.get(slot)
                    if o is not None and slot not in written and o.access in ("r", "?") and o.kind != "nreg":
                        want = "true" if o.new else "false"
                        if t[2][2][1] != want:
                            issues.append(("read-bank-flag", f"READ_REG of source {o.text} uses new={t[2][2][1]}"))
    return issues


def table_worker(cells, nstates, seed, open_classes):
    p = run.Part()
    c = boot.compiler()
    resolver = diff.make_resolver(c)
    subs = diff.bundled_subs()
    for name, text in cells:
        st, il = progcheck.try_compile(c, text)
        if st != "ok":
            p.count("spelling:rejected")
            continue
        p.count("spelling:accepted")
        try:
            ast = diff.parse_c(text)
        except Exception as e:
            p.count("spelling:not modelled by the reference")
            continue
        try:
            body = reader.parse_body(il)
        except reader.ReadError as e:
            p.failure(f"C07 il-unreadable {name}", {"program": text, "error": str(e)})
            continue
        ops = operands_closure(ast, subs)
        if any(o.width > 64 for o in ops):
            p.count("spelling:HVX (static only)")
        for kind, msg in static_descriptor_issues(ast, body):
            p.failure(f"C07 {kind} {name}", {"program": text, "issue": msg, "il": il})
        if any(o.width > 64 for o in ops):
            continue
        try:
            states = diff.simple_states(ops, nstates, run.sub_seed(seed, name))
        except diff.Discard as e:
            p.discard(e.why)
            continue
        first = {}
        for stt in states:
            p.ev()
            try:
                r, _ = progcheck.judge_state(ast, body, stt, resolver, subs)
            except UnknownSlot as e:
                # the emitted text names a register class / number the text's operands do not have
                r = ("il names a resource the architecture does not have", str(e))
            if r is None:
                top = any((v["old"] >> (v["w"] - 1)) & 1 or v["old"] != v["new"] for v in stt["regs"].values())
                if top:
                    p.nontriv((name, run.h64(stt)))
                continue
            if r[0] == "discard":
                p.discard(r[1])
                continue
            first.setdefault(r[0], (stt, r[1]))
        for kind_, (stt, detail) in first.items():
            p.failure(f"C07 {kind_} {name}", {"program": text, "state": stt, "kind": kind_, "detail": detail, "il": il})
        if len(p.d["samples"]) < 3:
            p.sample({"spelling": name, "program": text})
    return p.d


def run_check(ctx):
    ctx.rule = ("every operand spelling of the table (register class x letter x pair x V/N, explicit +_NEW, aliases +_NEW, "
                "immediates, loads/stores, jumps, PC) in read / write / read-after-write contexts x generated bank states; "
                "non-trivial = distinct (spelling, state) with a top bit set or differing banks")
    ctx.assumptions = ["architectural table: R/C/M/N 32 bit signed, pairs 64, P 8, aliases unsigned 32 (UPCYCLE/PKTCOUNT/UTIMER 64), "
                       "immediates 32 bit signed for r R s S", "bank model of DESIGN.md section 4; spellings the compiler "
                       "rejects are counted, not judged"]
    progcheck.replay_known(ctx)
    cells = spelling_cells()
    ctx.exhaustive = True
    ctx.extra["spellings"] = len(cells)
    ns = 64 if ctx.tier == "thorough" else 10
    chunks = [cells[i::32] for i in range(32)]
    run.run_sharded(ctx, table_worker, [(c, ns, ctx.seed, set()) for c in chunks], procs=16)


def replay(rep):
    if "state" in rep:
        return progcheck.replay_program(rep)
    c = boot.compiler()
    st, il = progcheck.try_compile(c, rep["program"])
    if st != "ok":
        return True, "replay: rejected now"
    iss = static_descriptor_issues(diff.parse_c(rep["program"]), reader.parse_body(il))
    return (not iss), f"replay: {iss}"
