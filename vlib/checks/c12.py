"""C12 - IL node ownership is linear: one consuming use, DUP for the rest; nothing initialised is left unused."""
from .. import gen
from . import static_common

EXCLUDED = {"const_cond", "sizeof", "hyb_stmtexpr"}
FEATURES = gen.STATIC_FEATURES - EXCLUDED


def run_check(ctx):
    ctx.rule = ("every accepted corpus part and bundled sub-routine definition in both layouts + Hypothesis programs with heavy "
                "operand re-use; per declared RzILOpPure: exactly one raw use, others DUP; per RzILOpEffect: exactly one use; per "
                "borrowed parameter: at most one raw use; nothing initialised unused; non-trivial = distinct (text, layout) "
                "with >= 6 emitted lines")
    ctx.assumptions = ["which use is the raw one is not judged (C evaluation order inside one expression is unspecified)"]
    static_common.run_static(ctx, "C12", FEATURES)


def replay(rep):
    return static_common.replay_static("C12", rep)
