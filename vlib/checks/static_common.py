"""Common driver of C10 / C11 / C12: corpus + sub-routines + generated programs, both output layouts."""
import collections

from .. import boot, run, diff, gen, progcheck, staticrun
from ..cref import show
from ..il import reader


def corpus_worker(which, names, extra_fn):
    p = run.Part()
    subinfo = staticrun.SubInfo()
    for fmt in ("stmt", "exec"):
        c = boot.compiler(fmt)
        resolver = diff.make_resolver(c)
        for name in names:
            if name.startswith("sub:"):
                sn = name[4:]
                p.ev()
                iss = staticrun.subroutine_issues(which, c, sn, subinfo, resolver)
                p.nontriv(("sub", sn, fmt))
                for kind, msg in iss:
                    p.failure(f"{which} sub-routine {sn} {kind}", {"sub_routine": sn, "issue": msg, "fmt": fmt})
                continue
            parts = boot.corpus()[name]
            status, res = diff.compile_insn(c, name, parts)
            if status != "ok":
                p.count("insn:" + status)
                continue
            for pi, (text, il) in enumerate(zip(parts, res.rzil)):
                p.ev()
                if il.strip() == "return NOP();":
                    p.count("part:nop")
                    continue
                iss = staticrun.check_text(which, il, text, resolver, subinfo)
                if extra_fn:
                    iss = iss + extra_fn(res, pi, il)
                if il.count("\n") >= 6:
                    p.nontriv((name, pi, fmt))
                kinds = collections.OrderedDict()
                for kind, msg in iss:
                    kinds.setdefault(kind, msg)
                for kind, msg in kinds.items():
                    p.failure(f"{which} corpus {name}[{pi}] {kind}", {"insn": f"{name}[{pi}]", "fmt": fmt, "issue": msg,
                                                                       "text": text[:400]})
                if len(p.d["samples"]) < 2:
                    p.sample({"insn": name, "part": pi, "fmt": fmt, "issues": len(iss)})
    return p.d


def gen_worker(which, features, nprog, seed, depth, nest, hi):
    import hypothesis
    from hypothesis import given, settings, Phase
    p = run.Part()
    subinfo = staticrun.SubInfo()
    comps = {f: boot.compiler(f) for f in ("stmt", "exec")}
    resolvers = {f: diff.make_resolver(c) for f, c in comps.items()}
    features = frozenset(features)
    fails = []

    def issues(stmts, fmt):
        text = show.program(stmts)
        st, il = progcheck.try_compile(comps[fmt], text)
        if st != "ok":
            return None, text, il
        return staticrun.check_text(which, il, text, resolvers[fmt], subinfo), text, il

    @hypothesis.seed(seed)
    @settings(max_examples=nprog, database=None, deadline=None, phases=[Phase.generate],
              suppress_health_check=list(hypothesis.HealthCheck))
    @given(gen.program(features, depth=depth, nest=nest, lo=1, hi=hi))
    def prop(pe):
        stmts, env = pe
        nst = {}
        stmts = gen.normalize(stmts, features, None, nst)
        for k_, v_ in nst.items():
            p.exclude(k_.replace("excluded:", ""), v_)
        for fmt in ("stmt", "exec"):
            p.ev()
            iss, text, il = issues(stmts, fmt)
            if iss is None:
                p.count("program:rejected")
                return
            p.count("program:compiled")
            if il.count("\n") >= 8:
                p.nontriv((text, fmt))
            for kind in collections.OrderedDict((k, 1) for k, _ in iss):
                fails.append((kind, fmt, stmts))
        p.sample({"program": show.program(stmts)}, cap=2)

    prop()
    # shrink a bounded number of failures per kind
    by = collections.defaultdict(list)
    for kind, fmt, stmts in fails:
        by[(kind, fmt)].append(stmts)
    for (kind, fmt), lst in by.items():
        lst.sort(key=lambda s: len(show.program(s)))
        seen = set()
        for stmts in lst[:2]:
            def still(s):
                iss, _, _ = issues(s, fmt)
                return iss is not None and any(k == kind for k, _ in iss)
            small = progcheck.shrink_program(stmts, still, budget=30)
            iss, text, il = issues(small, fmt)
            msg = next((m for k, m in (iss or []) if k == kind), "")
            sig = f"{which} gen {kind} [{progcheck.feature_signature(small)}]"
            if sig in seen:
                continue
            seen.add(sig)
            p.failure(sig, {"program": text, "fmt": fmt, "issue": msg, "il": il})
        p.count(f"failures:{kind}", len(lst))
    return p.d


def run_static(ctx, which, features, extra_fn=None, nq=240, nt=12000, depth=2, nest=2, hi=4):
    enable = progcheck.replay_known(ctx, replay_fn=lambda w: replay_static(which, w))
    features = frozenset(features) | enable
    ctx.extra["generator_features"] = sorted(features)
    names = sorted(boot.corpus())
    subs = ["sub:" + n for n in staticrun.SubInfo().json]
    if ctx.tier == "thorough":
        sel = names
    else:
        sel = diff.stratified_sample(names, 120, ctx.seed)
        wit = [f["witness"]["insn"].split("[")[0] for f in ctx.findings
               if f.get("status") == "open" and "insn" in f.get("witness", {})]
        sel = [w for w in wit if w not in sel] + sel
    sel = subs + sel
    chunks = [sel[i::48] for i in range(48)]
    run.run_sharded(ctx, corpus_worker, [(which, c, extra_fn) for c in chunks if c], procs=16)
    n = nt if ctx.tier == "thorough" else nq
    run.run_sharded(ctx, gen_worker, [(which, features, n // 16, run.sub_seed(ctx.seed, which, i), depth, nest, hi)
                                      for i in range(16)])


def replay_static(which, rep):
    subinfo = staticrun.SubInfo()
    fmt = rep.get("fmt", "stmt")
    c = boot.compiler(fmt)
    resolver = diff.make_resolver(c)
    if "program" in rep:
        st, il = progcheck.try_compile(c, rep["program"])
        if st != "ok":
            return True, "replay: rejected now"
        iss = staticrun.check_text(which, il, rep["program"], resolver, subinfo)
    elif "sub_routine" in rep:
        iss = staticrun.subroutine_issues(which, c, rep["sub_routine"], subinfo, resolver)
    else:
        name = rep["insn"].split("[")[0]
        pi = int(rep["insn"].split("[")[1].rstrip("]"))
        status, res = diff.compile_insn(c, name)
        if status != "ok":
            return True, "replay: rejected now"
        iss = staticrun.check_text(which, res.rzil[pi], boot.corpus()[name][pi], resolver, subinfo)
    return (not iss), f"replay: {iss[:5]}"
