"""Common driver of C10 / C11 / C12: corpus + sub-routines + generated programs, both output layouts."""
import collections

from .. import boot, run, diff, gen, progcheck, staticrun
from ..cref import show
from ..il import reader


def corpus_worker(which, names, extra_fn):
    p = run.Part()
    subinfo = staticrun.SubInfo()
    for fmt in ("stmt", "exec"):
        c = boot.compiler(fmt)
        resolver = diff.make_resolver(c)
        for name in names:
            if name.startswith("sub:"):
                sn = name[4:]
                p.ev()
                iss = staticrun.subroutine_issues(which, c, sn, subinfo, resolver)
                p.nontriv(("sub", sn, fmt))
                for kind, msg in iss:
                    p.failure(f"{which} sub-routine {sn} {kind}", {"sub_routine": sn, "issue": msg, "fmt": fmt})
                continue
            parts = boot.corpus()[name]
            status, res = diff.compile_insn(c, name, parts)
            if status != "ok":
                p.count("insn:" + status)
                continue
            for pi, (text, il) in enumerate(zip(parts, res.rzil)):
                p.ev()
                if il.strip() == "return NOP();":
                    p.count("part:nop")
                    continue
                iss = staticrun.check_text(which, il, text, resolver, subinfo)
                if extra_fn:
                    iss = iss + extra_fn(res, pi, il)
                if il.count("\n") >= 6:
                    p.nontriv((name, pi, fmt))
                kinds = collections.OrderedDict()
                for kind, msg in iss:
                    kinds.setdefault(kind, msg)
                for kind, msg in kinds.items():
                    p.failure(f"{which} corpus {name}[{pi}] {kind}", {"insn": f"{name}[{pi}]", "fmt": fmt, "issue": msg,
                                                                       "text": text[:400]})
                if len(p.d["samples"]) < 2:
                    p.sample({"insn": name, "part": pi, "fmt": fmt, "issues": len(iss)})
    return p.d


def gen_worker(which, features, nprog, seed, depth, nest, hi):
    import hypothesis
    from hypothesis import given, settings, Phase
    p = run.Part()
    subinfo = staticrun.SubInfo()
    comps = {f: boot.compiler(f) for f in ("stmt", "exec")}
    resolvers = {f: diff.make_resolver(c) for f, c in comps.items()}
    features = frozenset(features)
    fails = []

    def issues(stmts, fmt):
        text = show.program(stmts)
        st, il = progcheck.try_compile(comps[fmt], text)
        if st != "ok":
            return None, text, il
        return staticrun.check_text(which, il, text, resolvers[fmt], subinfo), text, il

    @hypothesis.seed(seed)
    @settings(max_examples=nprog, database=None, deadline=None, phases=[Phase.generate],
              suppress_health_check=list(hypothesis.HealthCheck))
    @given(gen.program(features, depth=depth, nest=nest, lo=1, hi=hi))
    def prop(pe):
        stmts, env = pe
        nst = {}
        stmts = gen.normalize(stmts, features, None, nst)
        for k_, v_ in nst.items():
            p.exclude(k_.replace("excluded:", ""), v_)
        for fmt in ("stmt", "exec"):
            p.ev()
            iss, text, il = issues(stmts, fmt)
            if iss is None:
                p.count("program:rejected")
                return
            p.count("program:compiled")
            if il.count("\n") >= 8:
                p.nontriv((text, fmt))
            for kind in collections.OrderedDict((k, 1) for k, _ in iss):
                fails.append((kind, fmt, stmts))
        p.sample({"program": show.program(stmts)}, cap=2)

    prop()
    # shrink a bounded number of failures per kind
    by = collections.defaultdict(list)
    for kind, fmt, stmts in fails:
        by[(kind, fmt)].append(stmts)
    for (kind, fmt), lst in by.items():
        lst.sort(key=lambda s: len(show.program(s)))
        seen = set()
        for stmts in lst[:2]:
            def still(s):
                iss, _, _ = issues(s, fmt)
                return iss is not None and any(k == kind for k, _ in iss)
            small = progcheck.shrink_program(stmts, still, budget=30)
            iss, text, il = issues(small, fmt)
            msg = next((m for k, m in (iss or []) if k == kind), "")
            sig = f"{which} gen {kind} [{progcheck.feature_signature(small)}]"
            if sig in seen:
                continue
            seen.add(sig)
            p.failure(sig, {"program": text, "fmt": fmt, "issue": msg, "il": il})
        p.count(f"failures:{kind}", len(lst))
    return p.d


SUB_TEMPLATES = [
    ("pc", "uint32_t", ["HexInsnPktBundle *bundle", "uint32_t x"], "{ return HEX_REG_ALIAS_PC + x; }"),
    ("cancel", "uint32_t", ["HexInsnPktBundle *bundle", "uint32_t x"], "{ STORE_SLOT_CANCELLED(pkt, slot); return x; }"),
    ("imm", "uint32_t", ["HexInsnPktBundle *bundle", "uint32_t x"], "{ return x + uiV; }"),
    ("reg", "int32_t", ["HexInsnPktBundle *bundle", "int32_t x"], "{ return RsV + x; }"),
    ("newreg", "int32_t", ["HexInsnPktBundle *bundle", "int32_t x"], "{ return (PuN & 1) ? x : 0; }"),
    ("call", "uint32_t", ["uint32_t x"], "{ return clz32(x) + 1; }"),
    ("sext", "int64_t", ["int32_t a"], "{ return (int64_t)a; }"),
    ("sext2", "int64_t", ["int32_t a", "int8_t b"], "{ int64_t t = a; t = t + b; return t + a; }"),
    ("loop", "uint32_t", ["uint32_t n"], "{ uint32_t acc = 0; for (i = 0; i < (n & 3); i++) { acc += i; } return acc; }"),
    ("alias", "uint32_t", ["HexInsnPktBundle *bundle", "uint32_t x"], "{ HEX_REG_ALIAS_LR = x; return HEX_REG_ALIAS_SP; }"),
    ("usr", "uint32_t", ["HexInsnPktBundle *bundle", "uint32_t x"], "{ set_usr_field(bundle, HEX_REG_FIELD_USR_OVF, x); return x; }"),
    ("load", "uint32_t", ["HexInsnPktBundle *bundle", "uint32_t a"], "{ return (uint32_t)mem_load_u32(a); }"),
    ("boolparam", "int32_t", ["bool b"], "{ return b ? 1 : (b ? 2 : 3); }"),
    ("twouse", "uint32_t", ["uint32_t a", "uint8_t c"], "{ return (a + c) ^ (a >> (c & 7)); }"),
]


CTX_OPERANDS = ["RsV", "RssV", "RsN", "NsN", "PsV", "PsN", "CsV", "CssV", "MuV", "RxV", "RxxV", "ReV", "RddV", "PeV",
                "siV", "uiV", "SiV", "UiV", "riV"]
CTX_LITERALS = ["-4", "2 - 6", "2 * 6", "2 + 6", "~5", "-(3)", "-1LL", "0xffffffffU", "3 - 2 - 4", "-(2 * 3)", "0x10",
                "(2 < 3)", "4 - 1 * 6"]
READ_CONTEXTS = ["{ RdV = (int32_t) mem_load_s32(@); }", "{ mem_store_u32(@, RtV); }", "{ mem_store_u64(RtV, @); }",
                 "{ mem_store_u8(RtV, @); }", "{ JUMP(@); }", "{ if (@) { RdV = 1; } }", "{ RdV = @ ? 1 : 2; }",
                 "{ RdV = clz32(@); }", "{ RdV = (@ == 3); }", "{ RdV = (int32_t) mem_load_u8(@ + 1); }",
                 "{ RdV = extract32(@, 0, 4); }", "{ int64_t q = @; RddV = q; }"]
WRITE_CONTEXTS = ["{ @ = RtV; }", "{ @ += 1; }", "{ @++; }", "{ @ = (int32_t) mem_load_s16(RtV); }", "{ if (RtV) { @ = 1; } }",
                  "{ @ = @ + 4; }"]


def context_templates():
    """operand spelling x context and literal shape x context: the C names the compiler derives from operand text
    (ml_<addr>, ms_<data>, jump_<target>, <name>_op) must stay identifiers, be declared once and before use"""
    from . import c07
    from ..cref.ast import classify
    toks = list(CTX_OPERANDS)
    for e in c07.EXPLICIT:
        toks += [e, e + "_NEW"]
    for a in c07.ALIASES + ["PC"]:
        toks += [f"HEX_REG_ALIAS_{a}", f"HEX_REG_ALIAS_{a}_NEW"]
    out = []
    for tok in toks:
        o = classify(tok)
        for c in READ_CONTEXTS:
            if tok in ("ReV", "RddV", "PeV"):
                continue        # pure destinations are only written
            out.append(c.replace("@", tok))
        writable = o is not None and o.kind != "imm" and getattr(o, "access", "r") in ("w", "rw") and not tok.endswith("_NEW") \
            or tok in c07.EXPLICIT or (tok.startswith("HEX_REG_ALIAS_") and not tok.endswith("_NEW"))
        if writable:
            out += [c.replace("@", tok) for c in WRITE_CONTEXTS]
    for lit in CTX_LITERALS:
        out += [c.replace("@", lit) for c in READ_CONTEXTS]
    return out


BOOL_EXPRS = ["(RsV == 1)", "(RsV < RtV)", "(!RsV)", "(RsV && RtV)", "((RsV < 2) || (RtV > 3))", "(RsV ? (RtV == 1) : (RtV < 2))",
              "(RsV ? !RtV : (RtV && RsV))", "((RsV == 1) == (RtV == 2))", "((RsV < 1) ? (RtV < 2) : 0)", "(RsV ? 1 : (RtV < 2))",
              "(RsV ? (RtV ? (RsV == 2) : (RtV != 3)) : (RsV >= RtV))", "(!(RsV < RtV))",
              # folded comparisons and statement-expressions whose value is a truth value
              "(1 == 1)", "(!(1 == 1))", "((1 == 1) && (RsV > 1))", "((2 < 1) || (RsV == RtV))", "(!(1 == 2) + 0)",
              "({ int32_t x = RsV; x > 3; })", "({ int32_t y = RtV; (y == 1) || (y == 2); })"]
BOOL_CONSUMERS = ["{ RdV = @; }", "{ RddV = @; }", "{ int8_t q = @; RdV = q; }", "{ uint64_t q; q = @; RddV = q; }",
                  "{ if (@) { RdV = 1; } }", "{ RdV = @ ? 3 : 4; }", "{ RdV = RsV + @; }", "{ RdV = @ << 2; }", "{ RdV = (@ && RtV); }",
                  "{ RdV = !@; }", "{ RdV = clz32(@); }", "{ mem_store_u8(RtV, @); }", "{ for (i = 0; @ && (i < 2); i++) { RxV += 1; } }",
                  "{ PdV = @; }", "{ RdV = (@ == 1); }", "{ RdV = -@; }", "{ RdV = ~@; }", "{ JUMP(@); }", "{ RdV = (int16_t) @; }",
                  "{ RxV += @; }", "{ RdV = (@ ? RsV : RtV) + 1; }", "{ RdV = RsV << @; }", "{ RddV = RuuV >> @; }",
                  "{ RxV <<= @; }", "{ RdV = RsV * @; }", "{ RdV = extract32(RsV, @, 3); }"]


# compound assignments where exactly one side is 64 bit wide / an operand is a predicate
WIDE_COMPOUND = [t.replace("@", op) for op in ("+=", "-=", "*=", "/=", "%=", "&=", "|=", "^=", "<<=", ">>=")
                 for t in ("{ RxxV @ RsV; }", "{ RxV @ RssV; }", "{ int64_t a = RssV; a @ 2; RddV = a; }", "{ RxxV @ PsV; }",
                           "{ RxV @ 2LL; }", "{ for (i = 0; i < 2; i++) { RxxV @ i; } }", "{ uint32_t a = RsV; a @ RttV; RdV = a; }")]


# non-constant ?: whose arms are the same stateless thing; conditions / operands that are used a second time
SAME_ARM_TEMPLATES = ["{ RdV = PuV ? uiV : uiV; if (PuV) { RdV = RsV; } }", "{ if (PuV) { RdV = RsV; } RdV = PuV ? uiV : uiV; }",
                      "{ int32_t a = RsV; RdV = (RtV > 1) ? a : a; }", "{ RdV = (RsV > RtV) ? 5 : 5; }", "{ EA = RsV; RdV = RtV ? EA : EA; }",
                      "{ RxV = PuV ? RxV : RxV; }", "{ RdV = (RsV > RtV) ? RsV : RsV; ReV = (RsV > RtV); }",
                      "{ int32_t a = RsV; RdV = (a > 1) ? a : a; ReV = a; }"]


def bool_consumer_templates():
    """every shape of truth-valued expression x every kind of consumer: conditions must receive booleans, everything
    else the 0/1 integer"""
    return [c.replace("@", b) for b in BOOL_EXPRS for c in BOOL_CONSUMERS]


def template_texts(which):
    from . import c07, c09, c15
    t = [x for _, x in c07.spelling_cells()] + list(c15.TEMPLATES)
    if which != "C10":
        t += list(c09.DEAD_ARM_TEMPLATES)
    if which in ("C11", "C10", "C12"):
        from . import c16
        t += context_templates() + bool_consumer_templates() + c16.NARROW_COMPOUND + WIDE_COMPOUND + SAME_ARM_TEMPLATES
    if which == "C12":
        # value-bearing statement-expressions are the class of the listed finding
        # KF-C12-statement-expression-declaration-emitted-twice: excluded by construction for C12
        t = [x for x in t if "({ int32_t" not in x]
    if which == "C11":
        # sizeof of every operand spelling inside name-deriving consumers (the leak of its operand is C12's listed finding)
        from . import c07
        toks = CTX_OPERANDS + [e_ + n_ for e_ in c07.EXPLICIT for n_ in ("", "_NEW")] + ["HEX_REG_ALIAS_LR", "HEX_REG_ALIAS_UTIMER"]
        t += [c.replace("@", tok) for tok in toks for c in ("{ RdV = (int32_t) mem_load_s32(sizeof(@)); }", "{ JUMP(sizeof(@)); }",
                                                            "{ mem_store_u32(RtV, sizeof(@)); }")]
    return t


def template_worker(which, texts, do_subs):
    import os
    p = run.Part()
    subinfo = staticrun.SubInfo()
    for fmt in ("stmt", "exec"):
        c = boot.compiler(fmt)
        resolver = diff.make_resolver(c)
        for t in texts:
            p.ev()
            st, il = progcheck.try_compile(c, t)
            if st != "ok":
                p.count("template:rejected")
                continue
            p.nontriv(("template", t, fmt))
            kinds = collections.OrderedDict()
            for kind, msg in staticrun.check_text(which, il, t, resolver, subinfo):
                kinds.setdefault(kind, msg)
            for kind, msg in kinds.items():
                p.failure(f"{which} template {kind} {t}", {"program": t, "fmt": fmt, "issue": msg})
    if do_subs:
        c = boot.compiler("stmt")
        resolver = diff.make_resolver(c)
        for tag, ret, params, body in SUB_TEMPLATES:
            name = f"st_{which.lower()}_{tag}_{os.getpid()}"
            p.ev()
            try:
                with boot.quiet():
                    c.add_sub_routine(name, ret, params, body)
            except Exception as e:
                p.count("sub-routine template rejected")
                continue
            subinfo.add(name, ret, params, body)
            p.nontriv(("subtemplate", tag))
            kinds = collections.OrderedDict()
            for kind, msg in staticrun.subroutine_issues(which, c, name, subinfo, resolver):
                kinds.setdefault(kind, msg)
            for kind, msg in kinds.items():
                p.failure(f"{which} sub-routine template {tag} {kind}", {"sub_routine_template": tag, "body": body, "issue": msg})
    return p.d


def run_static(ctx, which, features, extra_fn=None, nq=240, nt=12000, depth=2, nest=2, hi=4):
    enable = progcheck.replay_known(ctx, replay_fn=lambda w: replay_static(which, w))
    features = frozenset(features) | enable
    ctx.extra["generator_features"] = sorted(features)
    names = sorted(boot.corpus())
    subs = ["sub:" + n for n in staticrun.SubInfo().json]
    if ctx.tier == "thorough":
        sel = names
    else:
        sel = diff.stratified_sample(names, 120, ctx.seed)
        wit = [f["witness"]["insn"].split("[")[0] for f in ctx.findings
               if f.get("status") == "open" and "insn" in f.get("witness", {})]
        sel = [w for w in wit if w not in sel] + sel
    sel = subs + sel
    chunks = [sel[i::48] for i in range(48)]
    run.run_sharded(ctx, corpus_worker, [(which, c, extra_fn) for c in chunks if c], procs=16)
    tt = template_texts(which)
    ctx.extra["templates"] = len(tt)
    run.run_sharded(ctx, template_worker, [(which, tt[i::16], i == 0) for i in range(16)])
    n = nt if ctx.tier == "thorough" else nq
    run.run_sharded(ctx, gen_worker, [(which, features, n // 16, run.sub_seed(ctx.seed, which, i), depth, nest, hi)
                                      for i in range(16)])


def replay_static(which, rep):
    subinfo = staticrun.SubInfo()
    fmt = rep.get("fmt", "stmt")
    c = boot.compiler(fmt)
    resolver = diff.make_resolver(c)
    if "program" in rep:
        st, il = progcheck.try_compile(c, rep["program"])
        if st != "ok":
            return True, "replay: rejected now"
        iss = staticrun.check_text(which, il, rep["program"], resolver, subinfo)
    elif "sub_routine" in rep:
        iss = staticrun.subroutine_issues(which, c, rep["sub_routine"], subinfo, resolver)
    else:
        name = rep["insn"].split("[")[0]
        pi = int(rep["insn"].split("[")[1].rstrip("]"))
        status, res = diff.compile_insn(c, name)
        if status != "ok":
            return True, "replay: rejected now"
        iss = staticrun.check_text(which, res.rzil[pi], boot.corpus()[name][pi], resolver, subinfo)
    return (not iss), f"replay: {iss[:5]}"
