"""C14 - compilation results do not depend on history or on earlier failures.

Hypothesis RuleBasedStateMachine over two Compiler instances living in one process. Rules: compile a subject
through compile_c_stmt or through transform_insn on either instance, compile an input that fails (parse error,
unsupported construct, type error, failure with a pending hybrid), compile a pre-parsed corpus instruction,
register an unrelated sub-routine. After every successful compilation the normalised text (comment lines removed,
h_tmpN renamed by first occurrence) and the attribute list are compared with the subject's baseline = the same
subject compiled first on a fresh compiler in a pristine process.
"""
import json
import multiprocessing
import os
import re

from .. import boot, run, diff, gen, progcheck
from ..cref import show

FAILING = [
    "{ RdV = ; }", "{ RdV = RsV", "{ while (RsV) { RdV = 1; } }", "{ const int32_t cc = 1; cc = 2; }",
    "{ RdV = c14_unknown(RsV); }", "{ for (i = 0; i < 2; i++) { c14_unknown(RsV); } }",
    "{ RdV = clz32(RsV) + c14_unknown(RtV); }", "{ if (RsV) { mem_store_u32(RsV, RtN); P0 = 1; JUMP(RsV); } c14_unknown(RsV); }",
    "{ int32_t k0 = RsV; k0++; RdV = c14_unknown(k0); }", "{ switch (RsV) { case 1: RdV = 1; } }",
    "{ RdV = ({ int32_t q = RsV; q; }) + c14_unknown(RtV); }",
    # failures whose very first leaf already set an attribute flag
    "{ JUMP(c14_undefined_label); }", "{ mem_load_u8(c14_undefined_address); }", "{ G1_NEW = RsV; }", "{ P0 = c14_unknown(RsV); }",
    "{ if (c14_undefined) { RdV = 1; } }", "{ mem_store_u32(c14_undefined_address, RsV); }", "{ RdV = PuN + c14_unknown(1); }",
]

FIXED_SUBJECTS = [
    "{ RdV = RsV + RtV; }", "{ RdV = clz32(RsV) + clo32(RtV); }", "{ for (i = 0; i < 4; i++) { RxV += i; } }",
    "{ P0 = RsV; if (P0_NEW & 1) { JUMP(riV); } }", "{ int32_t a = RsV; a++; RdV = a; }",
    "{ RdV = ({ int32_t t = RsV; t; }) ? 1 : 2; }", "{ mem_store_u32(RsV, RtV); RdV = (int32_t)mem_load_s32(RsV); }",
    "{ RddV = RssN; HEX_REG_ALIAS_SP = HEX_REG_ALIAS_SP - 8; }", "{ RdV = fbrev(RsV); }", "{ PdV = (PsV & PtV); }",
    # value-producing operations whose value has the type object of an immediate / a literal / a register
    "{ RdV = ({ int32_t t = RsV; uiV + t; }); }", "{ RdV = ({ int32_t t = RsV; RtV ? riV : 0; }); }", "{ RdV = ({ int32_t t = RsV; siV; }); }",
    "{ RdV = siV + uiV; ReV = riV; }", "{ RdV = ({ int32_t t = RsV; 1 + t; }); }", "{ RdV = -1; ReV = 1 + RsV; }",
    "{ RdV = ({ ReV = 1; RsV; }); }", "{ RdV = ({ ReV = 1; extract32(RsV, 0, 4); }); }", "{ RdV = extract32(RtV, 1, 3) + clz32(RsV); }",
]

INSNS = ["A2_add", "A2_sub", "J2_jump", "J2_jumpt", "L2_loadri_io", "S2_storeri_io", "C2_cmpeq", "A2_tfrsi", "J4_cmpeqi_tp0_jump_t",
         "S2_asr_i_r", "A2_addi", "C2_and", "L4_return", "A2_combinew", "M2_mpyi", "S2_storerb_io", "L2_loadrb_io", "A4_andn",
         "C4_and_and", "C2_cmpgti", "J2_loop0r", "A2_abs", "S4_storeiri_io", "SA1_addi", "SL1_loadri_io"]


def normalise(text):
    lines = [l for l in text.split("\n") if l.strip() and not l.strip().startswith("//")]
    t = "\n".join(lines)
    order = []
    for m in re.finditer(r"h_tmp(\d+)", t):
        if m.group(1) not in order:
            order.append(m.group(1))
    mp = {n: f"h_tmp#{i}" for i, n in enumerate(order)}
    return re.sub(r"h_tmp(\d+)", lambda m: mp[m.group(1)], t)


_cnt = [0]


def compile_subject(c, subj, entry):
    """-> ('ok', normalised text, attrs|None) | ('exc', type name)"""
    from rzilcompiler.Parser import ParsedInsn
    try:
        with boot.quiet():
            if subj[0] == "insn":
                name = subj[1]
                parts = boot.corpus()[name]
                asts = [c.parser.parse(p_) for p_ in parts]
                if entry == "compile_insn":
                    c.parsed_insns[name] = ParsedInsn(name, asts, parts)
                    ins = c.compile_insn(name)
                else:
                    ins = c.transform_insn(name, ParsedInsn(name, asts, parts))
                return ("ok", [normalise(t) for t in ins.rzil], [sorted(m) for m in ins.meta])
            text = subj[1]
            if entry == "c_stmt":
                return ("ok", [normalise(c.compile_c_stmt(text))], None)
            _cnt[0] += 1
            # names are reused on purpose: compiling another behaviour under a name seen before (re-parsed shortcode,
            # the same name on the other instance) must not return what was compiled under that name earlier
            name = f"GEN_c14_{_cnt[0] % 5}"
            parsed = ParsedInsn(name, [c.parser.parse(text)], [text])
            if entry == "compile_insn":
                c.parsed_insns[name] = parsed
                ins = c.compile_insn(name)
            else:
                ins = c.transform_insn(name, parsed)
            return ("ok", [normalise(t) for t in ins.rzil], [sorted(m) for m in ins.meta])
    except Exception as e:
        return ("exc", type(e).__name__)


def baseline_one(subj):
    """runs in a pristine process: first compilation on a fresh compiler"""
    boot.boot()
    c = boot.new_compiler()
    return (subj, compile_subject(c, subj, "insn"))


def apply_op(cs, op):
    """execute one history operation; returns the result of compile ops"""
    kind = op[0]
    if kind == "compile":
        _, inst, subj, entry = op
        return compile_subject(cs[inst], tuple(subj), entry)
    if kind == "fail":
        _, inst, text, entry = op
        return compile_subject(cs[inst], ("prog", text), entry)
    if kind == "subroutine":
        _, inst, n = op
        try:
            with boot.quiet():
                cs[inst].add_sub_routine(f"c14_sr_{os.getpid()}_{n}", "int32_t", ["int32_t x"], "{ int32_t y = x + 1; y++; return y; }")
        except Exception:
            pass
        return None
    raise ValueError(kind)


def judge(res, base, entry):
    """compare a compilation result with the baseline; -> list of mismatch kinds"""
    if base[0] != "ok":
        return [] if res[0] != "ok" else ["accepted although the pristine compilation raises"]
    if res[0] != "ok":
        return [f"raises {res[1]} although the pristine compilation succeeds"]
    out = []
    if res[1] != base[1]:
        out.append("text differs from pristine compilation")
    if res[2] is not None and res[2] != base[2]:
        out.append("attributes differ from pristine compilation")
    return out


def machine_worker(seed, nexamples, steps, subjects, baselines):
    import hypothesis
    from hypothesis import settings, strategies as st, Phase
    from hypothesis.stateful import RuleBasedStateMachine, rule, run_state_machine_as_test
    p = run.Part()
    base = {tuple(s): b for s, b in baselines}
    shared = {"cs": None, "log": [], "n": 0}

    def fresh():
        shared["cs"] = [boot.new_compiler("stmt"), boot.new_compiler("stmt")]
        shared["log"] = []

    fresh()
    subj_st = st.sampled_from(subjects)

    class Histories(RuleBasedStateMachine):
        def __init__(self):
            super().__init__()
            if len(shared["log"]) > 300:
                fresh()

        def _do(self, op, subj=None, entry=None):
            res = apply_op(shared["cs"], op)
            shared["log"].append(op)
            p.ev()
            if subj is not None:
                mism = judge(res, base[tuple(subj)], entry)
                hist = shared["log"][:-1]
                if any(o[0] == "fail" for o in hist):
                    p.nontriv((tuple(subj), entry, len(hist)))
                for m in mism:
                    prev = hist[-1][0] if hist else "none"
                    p.failure(f"C14 {m} [entry={entry} after={prev}]",
                              {"history": list(shared["log"]), "subject": list(subj), "entry": entry, "mismatch": m,
                               "got": res, "baseline": base[tuple(subj)]})
                    fresh()   # do not let one corrupted history poison the following ones
                    return

        @rule(inst=st.integers(0, 1), subj=subj_st, entry=st.sampled_from(["c_stmt", "insn", "compile_insn"]))
        def compile_ok(self, inst, subj, entry):
            if subj[0] == "insn" and entry == "c_stmt":
                entry = "insn"
            p.count("entry:" + entry)
            self._do(("compile", inst, list(subj), entry), subj, entry)

        @rule(inst=st.integers(0, 1), text=st.sampled_from(FAILING), entry=st.sampled_from(["c_stmt", "insn", "compile_insn"]))
        def compile_failing(self, inst, text, entry):
            self._do(("fail", inst, text, entry))
            p.count("history:failing compilation")

        @rule(inst=st.integers(0, 1))
        def register_sub_routine(self, inst):
            shared["n"] += 1
            self._do(("subroutine", inst, shared["n"]))
            p.count("history:sub-routine registered")

    run_state_machine_as_test(
        hypothesis.seed(seed)(Histories),
        settings=settings(max_examples=nexamples, stateful_step_count=steps, database=None, deadline=None,
                          phases=[Phase.generate], suppress_health_check=list(hypothesis.HealthCheck)))
    p.sample({"history_tail": [str(o)[:100] for o in shared["log"][-6:]]})
    return p.d


def make_subjects(seed, n):
    """per-run pool: fixed subjects + corpus instructions + generated programs"""
    import hypothesis
    from hypothesis import given, settings, Phase
    feats = gen.SAFE_CORE | {"hyb_inc", "hyb_call", "hyb_stmtexpr", "pred"}
    out = [("prog", t) for t in FIXED_SUBJECTS] + [("insn", n_) for n_ in INSNS if n_ in boot.corpus()]
    progs = []

    @hypothesis.seed(seed)
    @settings(max_examples=n, database=None, deadline=None, phases=[Phase.generate],
              suppress_health_check=list(hypothesis.HealthCheck))
    @given(gen.program(feats, depth=2, nest=1, lo=1, hi=3))
    def collect(pe):
        stmts, env = pe
        progs.append(show.program(gen.normalize(stmts, feats, None, {})))

    collect()
    return out + [("prog", t) for t in sorted(set(progs)) if len(t) < 400]


def compute_baselines(subjects):
    ctx = multiprocessing.get_context("fork")
    with ctx.Pool(16, maxtasksperchild=1) as pool:
        return pool.map(baseline_one, subjects, chunksize=1)


def run_check(ctx):
    ctx.rule = ("Hypothesis stateful machine: random interleavings of compile (two entry points, two compiler instances), failing "
                "compilations of six kinds, sub-routine registration; every successful compilation is compared with the subject's "
                "baseline from a pristine process; non-trivial = distinct judged step whose history contains a failing compilation")
    ctx.assumptions = ["text equality up to comment lines and a consistent renaming of h_tmpN; attribute lists compared as sorted lists"]
    nsub = 60 if ctx.tier == "thorough" else 24
    subjects = make_subjects(ctx.seed, nsub)
    baselines = compute_baselines(subjects)
    ok = [s for s, b in baselines if b[0] == "ok"]
    ctx.extra["subjects"] = len(subjects)
    ctx.extra["subjects_accepted_pristine"] = len(ok)
    # witnesses of listed findings
    for f in ctx.findings:
        if f.get("status") == "open" and "history" in f.get("witness", {}):
            okr, msg = replay(f["witness"])
            ctx.evaluations += 1
            if not okr:
                ctx.known_hit[f["id"]] = f
    nex, steps = (40, 60) if ctx.tier == "thorough" else (6, 40)
    run.run_sharded(ctx, machine_worker, [(run.sub_seed(ctx.seed, "c14", i), nex, steps, subjects, baselines) for i in range(16)])


def replay(rep):
    """re-execute a recorded history on fresh compilers and judge its last compile operation"""
    hist = rep["history"]
    cs = [boot.new_compiler("stmt"), boot.new_compiler("stmt")]
    subj = tuple(rep["subject"])
    ctxm = multiprocessing.get_context("fork")
    with ctxm.Pool(1, maxtasksperchild=1) as pool:
        base = pool.map(baseline_one, [subj])[0][1]
    res = None
    for op in hist:
        res = apply_op(cs, tuple(op) if not isinstance(op, tuple) else op)
    mism = judge(res, base, rep["entry"])
    return (not mism), f"replay: {mism}"
