"""C13 - reported instruction attributes are exactly those of the instruction itself.

Oracle: a token-level scanner over the C text (reference lexer, not the Lark grammar):
  COND <=> an `if` token; NEW <=> a .new operand token (…N / _NEW); MEM_READ <=> mem_load_; MEM_WRITE <=> mem_store_;
  BRANCH <=> JUMP( ; WPRED <=> an assignment whose target is a predicate register; WRITE_Pn <=> target is explicit Pn;
  NONE <=> nothing applies; no-op list => [NONE]; get_unimplemented_rzil_instr => [INVALID].
Subjects: accepted corpus parts and generated programs combining the attribute-relevant constructs, each compiled
under several histories (first on a fresh compiler; after k other subjects on the same compiler; on a second
compiler instance of the same process).
"""
import re

from .. import boot, run, diff, progcheck
from ..cref.parse import lex, CParseError, ASSIGN_OPS
from ..cref.ast import classify

P = "HEX_IL_INSN_ATTR_"


def expected_attrs(text):
    """set of attribute names implied by the text"""
    toks = lex(text)
    out = set()
    for i, t in enumerate(toks):
        if t[0] != "id":
            continue
        s = t[1]
        if s == "if":
            out.add("COND")
        elif s.startswith("mem_load_"):
            out.add("MEM_READ")
        elif s.startswith("mem_store_"):
            out.add("MEM_WRITE")
        elif s == "JUMP" and i + 1 < len(toks) and toks[i + 1][1] == "(":
            out.add("BRANCH")
        o = classify(s)
        if o is not None and o.new and o.kind in ("reg", "nreg", "expl", "alias"):
            out.add("NEW")
        if o is not None and o.kind in ("reg", "expl") and s[0] == "P":
            # assignment target?  P.. followed (after optional closing parentheses) by an assignment operator
            j = i + 1
            while j < len(toks) and toks[j][1] == ")":
                j += 1
            if j < len(toks) and toks[j][0] == "op" and toks[j][1] in tuple(ASSIGN_OPS) + ("++", "--"):
                out.add("WPRED")
                if o.kind == "expl" and ":" not in s:
                    out.add("WRITE_P" + re.match(r"P(\d)", s).group(1))
    if not out:
        out.add("NONE")
    return {P + a for a in out}


def compare(expected, got):
    """-> list of mismatch descriptions (set comparison, order not judged)"""
    g = set(got)
    out = []
    if len(got) != len(g):
        out.append("duplicate attribute")
    for a in sorted(expected - g):
        out.append("missing " + a.replace(P, ""))
    for a in sorted(g - expected):
        out.append("extra " + a.replace(P, ""))
    return out


TEMPLATES = [
    "{ RdV = RsV; }", "{ if (RsV) { RdV = 1; } }", "{ RdV = RsN; }", "{ RdV = (int32_t)mem_load_s32(RsV); }",
    "{ mem_store_u32(RsV, RtV); }", "{ JUMP(RsV); }", "{ PdV = RsV; }", "{ P0 = RsV; }", "{ P1 = 1; P3 = 2; }",
    "{ RdV = P0_NEW; }", "{ RdV = HEX_REG_ALIAS_LR_NEW; }", "{ PdV = (PsV & PtV); }", "{ PxV |= PsV; }",
    "{ if (PuN & 1) { JUMP(riV); } }", "{ if (PuV & 1) { mem_store_u8(RsV, RtV); } else { RdV = (uint8_t)mem_load_u8(RsV); } }",
    "{ P2 = (RsV == RtV) ? 0xff : 0; if (P2_NEW & 1) { JUMP(HEX_REG_ALIAS_PC + riV); } }",
    "{ RdV = (RsV ? RtV : RuV); }", "{ for (i = 0; i < 4; i++) { RxV += i; } }", "{ RdV = NsN; }",
    "{ EA = RsV; mem_store_u16(EA, (uint16_t)mem_load_u16(EA) + RtV); }", "{ P3 = P3 | 1; }", "{ RddV = RssV; }",
    # every way a predicate can be written: simple, compound, postfix
    "{ P0++; }", "{ P2--; RdV = 1; }", "{ PdV++; }", "{ PxV--; }", "{ P1 += 1; }", "{ PdV &= RsV; }", "{ RdV = P3++; }",
    "{ if (RsV) { P0++; } }", "{ P1 <<= 1; }",
    # constant conditions are conditions; registers that merely start with the letter p are no predicates
    "{ if (1) { RdV = RsV; } }", "{ if (0x10) { JUMP(riV); } }", "{ if (1 == 1) { RdV = 1; } }", "{ if (0) { RdV = 1; } }",
    "{ if (4 > 2) P0 = 1; }", "{ if (1) { RdV = 1; } else { RdV = 2; } }", "{ RdV = 1 ? RsV : RtV; }",
    "{ HEX_REG_ALIAS_PC = RsV; }", "{ HEX_REG_ALIAS_PC += 4; }", "{ HEX_REG_ALIAS_PKTCOUNT = RssV; }", "{ HEX_REG_ALIAS_PKTCOUNTLO = RsV; }",
    "{ HEX_REG_ALIAS_P3_0 = RsV; }", "{ HEX_REG_ALIAS_LR = RsV; HEX_REG_ALIAS_SP = RtV; }", "{ HEX_REG_ALIAS_UPCYCLE = RssV; }",
    "{ RdV = HEX_REG_ALIAS_PKTCOUNTHI; }", "{ HEX_REG_ALIAS_FP = HEX_REG_ALIAS_PC + 8; }",
]


def gen_subjects(seed, n):
    """attribute-relevant programs: random conjunctions of the template statements"""
    import random
    rng = random.Random(seed)
    pieces = ["RdV = RsV;", "if (RtV) { ReV = 1; }", "ReV = RtN;", "RxV = (int32_t)mem_load_s32(RsV);",
              "mem_store_u32(RsV, RtV);", "JUMP(RsV);", "PyV = RsV;", "P0 = RsV;", "P1 = 1;", "P2 = RtV;", "P3 = 2;",
              "ReV = P0_NEW;", "ReV = HEX_REG_ALIAS_LR_NEW;", "PyV &= 3;", "if (P1_NEW & 1) { ReV = 2; }", ";",
              "RxV = (RsV ? RtV : 5);", "{ RxV = RsV + 1; }"]
    out = []
    for _ in range(n):
        k = rng.randint(1, 4)
        out.append("{ " + " ".join(rng.sample(pieces, k)) + " }")
    return out


_n = [0]


def get_meta_prog(c, text):
    """compile a generated program through the instruction-level public entry point transform_insn"""
    from rzilcompiler.Parser import ParsedInsn
    _n[0] += 1
    name = f"GEN_prog{_n[0]}"
    try:
        with boot.quiet():
            ast = c.parser.parse(text)
            ins = c.transform_insn(name, ParsedInsn(name, [ast], [text]))
        return list(ins.meta[0])
    except Exception:
        return None


# inputs that are rejected by the transformer only after it has visited attribute-relevant constructs
FAILING = [
    "{ if (RsV) { mem_store_u32(RsV, RtN); JUMP(RsV); P0 = 1; } c13_unknown_fn(RsV); }",
    "{ P1 = 1; RdV = (int32_t)mem_load_s32(RsV); while (RsV) { RdV = 1; } }",
    "{ RdV = P2_NEW; mem_store_u8(RsV, RtV); RdV = c13_unknown_fn(RsV); }",
    "{ if (RtV) { JUMP(RtV); } const int32_t cc = 1; cc = 2; }",
]


def worker(names, programs, seed, history_lens):
    import random
    p = run.Part()
    rng = random.Random(seed)
    noped = set(diff.noped_list())
    subjects = [("insn", n) for n in names] + [("prog", t) for t in programs]
    # history 0: every subject first on a fresh compiler is too expensive (2.6 s each); instead each worker uses one
    # fresh compiler per history length and compiles subjects in random order - the oracle is history independent,
    # so every compilation is judged, and the position in the history is recorded.
    for hl in history_lens:
        c = boot.new_compiler()
        c2 = boot.new_compiler() if hl == history_lens[-1] else None
        order = subjects[:] + [("fail", f) for f in FAILING] * 3
        rng.shuffle(order)
        hist = []
        for kind, subj in order:
            for cc, which in ((c, "same"), (c2, "second-instance")):
                if cc is None:
                    continue
                p.ev()
                if kind == "fail":
                    if get_meta_prog(cc, subj) is None:
                        p.count("history:failing compilation")
                    else:
                        p.count("history:'failing' input was accepted")
                    continue
                if kind == "insn":
                    parts = boot.corpus()[subj]
                    status, res = diff.compile_insn(cc, subj, parts)
                    if status != "ok":
                        p.count("insn:" + status)
                        continue
                    metas = res.meta
                    texts = parts
                    if subj in noped:
                        for pi, m in enumerate(metas):
                            if m != [P + "NONE"]:
                                p.failure(f"C13 noped {subj}", {"insn": subj, "got": m})
                        continue
                else:
                    m = get_meta_prog(cc, subj)
                    if m is None:
                        p.count("program:rejected")
                        continue
                    metas, texts = [m], [subj]
                for pi, (m, text) in enumerate(zip(metas, texts)):
                    try:
                        exp = expected_attrs(text)
                    except CParseError:
                        p.count("part:unlexable by the reference")
                        continue
                    mism = compare(exp, m)
                    earlier = set().union(*[h for h in hist]) if hist else set()
                    if len(exp) >= 2 or (earlier - exp - {P + "NONE"}):
                        p.nontriv((kind, subj, pi, len(hist) > 0, which))
                    for mm in mism:
                        p.failure(f"C13 {mm} [{which}]", {"subject": subj if kind == "prog" else f"{subj}[{pi}]", "text": text[:300],
                                                           "expected": sorted(exp), "got": m, "history_len": len(hist),
                                                           "history_tail": [sorted(h) for h in hist[-3:]], "instance": which})
                    if which == "same":
                        hist.append(exp)
                    p.count(f"judged:{which}")
            if len(p.d["samples"]) < 2:
                p.sample({"subject": subj, "expected": sorted(expected_attrs(texts[0])) if kind == "prog" else "corpus"})
    return p.d


def run_check(ctx):
    from rzilcompiler.Compiler import RZILInstruction
    ctx.rule = ("accepted corpus parts (thorough: all; quick: 160 stratified) and generated programs combining if / .new / load / "
                "store / JUMP / predicate writes, compiled in random order on fresh compilers (every compilation is judged against "
                "the history-independent token-level oracle) and on a second compiler instance; non-trivial = distinct "
                "(subject, position) with >= 2 expected attributes or an earlier subject with attributes the subject lacks")
    ctx.assumptions = ["oracle reads only the C text; list order is not judged; sub-routine bodies do not contribute attributes"]
    names = sorted(boot.corpus())
    if ctx.tier == "thorough":
        sel, nprog = names, 4000
    else:
        sel, nprog = diff.stratified_sample(names, 160, ctx.seed), 240
    progs = TEMPLATES + gen_subjects(ctx.seed, nprog)
    shards = 16
    args = [(sel[i::shards], progs[i::shards], run.sub_seed(ctx.seed, "c13", i), (1, 2)) for i in range(shards)]
    run.run_sharded(ctx, worker, args)
    ins = RZILInstruction.get_unimplemented_rzil_instr("dummy")
    ctx.evaluations += 1
    if ins.meta != [[P + "INVALID"]]:
        ctx.failure("C13 unimplemented-not-INVALID", {"got": ins.meta})


def replay(rep):
    c = boot.new_compiler()
    subj = rep["subject"]
    if subj.startswith("{"):
        m = get_meta_prog(c, subj)
        exp = expected_attrs(subj)
    else:
        name, pi = subj.split("[")[0], int(subj.split("[")[1].rstrip("]"))
        status, res = diff.compile_insn(c, name)
        if status != "ok":
            return True, "replay: rejected"
        m, exp = res.meta[pi], expected_attrs(boot.corpus()[name][pi])
    mism = compare(exp, m)
    return (not mism), f"replay (fresh compiler, no history): expected {sorted(exp)} got {m} -> {mism}"
