"""C19 - loading and splitting resolved shortcode loses nothing.

(a) corpus: every bundled line, compared with an independent (non-regex) splitter; compounds: token streams;
(b) Hypothesis lines `insn(NAME, BODY)`: assemble -> split must return exactly (NAME, BODY) or raise;
(c) Hypothesis compound bodies with text before / between / after the markers, nested braces, marker count != 2;
(d) load_insn_behavior on generated files in a scratch git repository (two successive loads: no stale entries,
    no silently skipped non-# line).
"""
import os
import re
import shutil
import subprocess
import tempfile

from .. import boot, run

M = "__COMPOUND_PART1__"
TOK = re.compile(r"[A-Za-z_]\w*|\d+|\S")


def toks(s):
    return TOK.findall(s)


def inner(block):
    b = block.strip()
    if not (b.startswith("{") and b.endswith("}")):
        return None
    return b[1:-1]


def balanced(s):
    d = 0
    for ch in s:
        if ch == "{":
            d += 1
        elif ch == "}":
            d -= 1
            if d < 0:
                return False
    return d == 0


def check_compound(PH, body, expect_tokens, p, sigbase, rep):
    """split_compounds(body) must raise or return two brace-balanced blocks whose token streams concatenate to
    expect_tokens"""
    try:
        p1, p2 = PH.split_compounds(body)
    except Exception:
        p.count("compound:rejected")
        return
    i1, i2 = inner(p1), inner(p2)
    if i1 is None or i2 is None or not balanced(i1) or not balanced(i2):
        p.failure(f"{sigbase} parts not brace-balanced blocks", dict(rep, p1=p1, p2=p2))
        return
    # braces of the part-1 block may or may not survive as a nested block: compare the statement tokens
    nb = lambda ts: [t for t in ts if t not in "{}"]
    if nb(toks(i1) + toks(i2)) != nb(expect_tokens):
        p.failure(f"{sigbase} statements lost or reordered", dict(rep, p1=p1, p2=p2))


def corpus_part():
    from rzilcompiler.Preprocessor.Hexagon.PreprocessorHexagon import PreprocessorHexagon as PH
    p = run.Part()
    path = os.path.join(boot.REPO_DIR, "Resources/Hexagon/Preprocessor/shortcode_resolved.h")
    names = []
    with open(path) as f:
        lines = f.readlines()
    for line in lines:
        if line.startswith("#"):
            continue
        p.ev()
        raw = line.rstrip("\n")
        assert raw.startswith("insn(") and raw.endswith(")")
        name, body = raw[5:-1].split(", ", 1)
        names.append(name)
        try:
            got = PH.split_resolved_shortcode(line)
        except Exception as e:
            p.failure("C19 corpus line rejected", {"line": raw[:200], "error": str(e)})
            continue
        if tuple(got) != (name, body):
            p.failure("C19 corpus line split wrong", {"line": raw[:200], "got": [got[0], got[1][:100]]})
        if any(ch in body for ch in "),{"):
            p.nontriv(("line", name))
        if M in body:
            a = body.index(M)
            b = body.index(M, a + len(M))
            pre, p1, post = body[1:a], body[a + len(M):b], body[b + len(M):-1]
            exp = toks(pre) + toks(inner(p1) or p1) + toks(post)
            check_compound(PH, body, exp, p, "C19 corpus compound", {"insn": name})
            p.nontriv(("compound", name))
    # load_insn_behavior on the bundled file
    ph = PH(None)
    with boot.quiet():
        ph.load_insn_behavior()
    beh = dict(ph.behaviors)
    if sorted(beh) != sorted(names) or len(names) != len(set(names)):
        p.failure("C19 load_insn_behavior names differ", {"missing": sorted(set(names) - set(beh))[:5],
                                                          "extra": sorted(set(beh) - set(names))[:5]})
    for n, parts in beh.items():
        ind = boot.corpus().get(n)
        if ind is None:
            continue
        if len(parts) != len(ind) or [toks(x) for x in parts] != [toks(x) for x in ind]:
            p.failure("C19 load_insn_behavior parts differ", {"insn": n, "got": [x[:80] for x in parts]})
    p.sample({"corpus_lines": len(names)})
    return p.d


def hyp_part(n, seed):
    import hypothesis
    from hypothesis import given, settings, Phase, strategies as st
    from rzilcompiler.Preprocessor.Hexagon.PreprocessorHexagon import PreprocessorHexagon as PH
    p = run.Part()
    alphabet = ["RdV", "RsV", "=", "+", "(", ")", "{", "}", ";", ",", ", ", " ", "insn(", "insn(X, ", "1", "fcn", "if",
                "else", "0x1f", "mem_load_u8", ")", "))", ") ", "\t", M[:6], "/*c*/", "a_b", "é", "$"]
    name_st = st.text(alphabet="ABCXYZabcxyz0123456789_", min_size=1, max_size=12)
    body_st = st.lists(st.sampled_from(alphabet), min_size=1, max_size=14).map("".join)

    @hypothesis.seed(seed)
    @settings(max_examples=n, database=None, deadline=None, phases=[Phase.generate],
              suppress_health_check=list(hypothesis.HealthCheck))
    @given(name_st, body_st, st.sampled_from(["", "\n", "\r\n", " \n", "\t"]))
    def line_prop(name, body, tail):
        p.ev()
        line = f"insn({name}, {body}){tail}"
        try:
            got = PH.split_resolved_shortcode(line)
        except Exception:
            p.count("line:rejected")
            return
        if any(ch in body for ch in "),{"):
            p.nontriv(("gen-line", name, body))
        if tuple(got) != (name, body):
            cls = "tail" if tail not in ("", "\n") else "body"
            p.failure(f"C19 generated line split wrong ({cls})", {"line": line, "got": list(got), "expected": [name, body]})
        p.sample({"line": line}, cap=3)

    @hypothesis.seed(seed + 2)
    @settings(max_examples=n // 2, database=None, deadline=None, phases=[Phase.generate],
              suppress_health_check=list(hypothesis.HealthCheck))
    @given(name_st, body_st, st.integers(1, 12), st.sampled_from(["cut", "cut", "junk"]),
           st.sampled_from([";", " x", "}", " // c", " insn(", ",", ") ;", "\\"]), st.sampled_from(["", "\n"]))
    def malformed_prop(name, body, k, how, junk, tail):
        """a line that does not end in the closing parenthesis of insn( is malformed: cut anywhere, or text after it"""
        good = f"insn({name}, {body})"
        bad = good[:max(len("insn("), len(good) - k)] if how == "cut" else good + junk
        if bad.rstrip().endswith(")"):
            return      # still ends like a definition: not in the class this rule is about
        p.ev()
        p.count("malformed:" + how)
        try:
            got = PH.split_resolved_shortcode(bad + tail)
        except Exception:
            p.nontriv(("malformed", bad))
            return
        p.failure(f"C19 malformed line accepted ({how})", {"line": bad + tail, "got": list(got)})

    stmt = st.sampled_from(["RdV = RsV;", "P0 = 1;", "{ RxV += 1; }", "if (RsV) { JUMP(riV); }", ";", "{ }",
                            "if (a) {P0 = 0xff;} else {P0 = 0x00;}", "f(a, b);", " "])
    seq = st.lists(stmt, min_size=0, max_size=3).map(" ".join)

    @hypothesis.seed(seed + 1)
    @settings(max_examples=n // 2, database=None, deadline=None, phases=[Phase.generate],
              suppress_health_check=list(hypothesis.HealthCheck))
    @given(seq, seq, seq, st.sampled_from(["{%s}", "{ %s }", "{%s }"]), st.integers(0, 3), st.booleans())
    def comp_prop(pre, p1, post, brace, nmark, pad):
        p.ev()
        block = brace % p1
        if nmark == 0 or nmark == 1:
            body = "{" + pre + (M if nmark else "") + block + post + "}"
            exp = None
        else:
            body = "{" + pre + M + block + M + post + "}"
            if nmark == 3:
                body = body[:-1] + M + "}"
            exp = toks(pre) + toks(p1) + toks(post) if nmark == 2 else None
        from_pre = "pre" if pre.strip() else "nopre"
        if exp is None:
            # malformed marker count: only "raise or two balanced blocks" is required
            try:
                r = PH.split_compounds(body)
            except Exception:
                p.count("compound:rejected")
                return
            p.count("compound:malformed accepted")
            return
        if pre.strip() or post.strip():
            p.nontriv(("compound", pre, p1, post))
        check_compound(PH, body, exp, p, f"C19 generated compound ({from_pre})", {"body": body})

    line_prop()
    malformed_prop()
    comp_prop()
    return p.d


def load_part(seed, rounds):
    """load_insn_behavior on generated files in a scratch git repository (cwd decides the path)"""
    import random
    from rzilcompiler.Preprocessor.Hexagon.PreprocessorHexagon import PreprocessorHexagon as PH
    p = run.Part()
    rng = random.Random(seed)
    d = tempfile.mkdtemp(prefix="c19_")
    old = os.getcwd()
    try:
        subprocess.run(["git", "init", "-q", d], check=True)
        pp = os.path.join(d, "Resources/Hexagon/Preprocessor")
        os.makedirs(pp)
        os.chdir(d)
        bodies = ["{ RdV = RsV; }", "{ if (RsV) { RdV = f(a, b); } }", "{ RdV = (RsV); }",
                  "{" + M + "{ P0 = 1; }" + M + " if (P0_NEW) { JUMP(riV); }}", "{ RxV = g(1, (2)); }",
                  # compounds with text in front of the first marker / padded markers: they must be split as well
                  "{ RdV = 1; " + M + "{ P0 = 1; }" + M + " JUMP(riV); }", "{ " + M + "{ P1 = f(a, (b)); }" + M + " RdV = 2; }",
                  "{ int x = RsV; " + M + "{ if (x) { P0 = 0xff; } else { P0 = 0; } }" + M + "}"]
        malformed = ["this line is not an insn definition", "insn(A2_cut, { RdV = fADD(RsV, RtV);}", "insn(A2_junk, { RdV = 1; }) x",
                     "insn(A2_semi, { RdV = g(1); });", "insn(NoBody)", "insn(A2_open, { RdV = (RsV; }"]
        for r in range(rounds):
            names = [f"T{r % 2}_{i}" for i in range(6)] + ["SHARED_A", "SHARED_B"]
            content = {n: rng.choice(bodies) for n in names}
            bad = rng.random() < 0.4
            lines = ["#line 1 \"x\""] + [f"insn({n}, {b})" for n, b in content.items()]
            if bad:
                lines.insert(rng.randrange(1, len(lines)), rng.choice(malformed))
            with open(os.path.join(pp, "shortcode_resolved.h"), "w") as f:
                f.write("\n".join(lines) + "\n")
            ph = PH(None)
            p.ev()
            try:
                with boot.quiet():
                    ph.load_insn_behavior()
            except Exception:
                if bad:
                    p.count("load:malformed line rejected")
                    p.nontriv(("load-bad", r))
                else:
                    p.failure("C19 load rejects a well-formed file", {"lines": lines})
                continue
            if bad:
                p.failure("C19 load silently skips a malformed line", {"lines": lines})
                continue
            p.nontriv(("load", r, tuple(sorted(content.items()))))
            nb = lambda ts: [t for t in ts if t not in "{}"]
            for n, b in content.items():
                got = ph.behaviors.get(n)
                if M not in b:
                    ok = got is not None and [toks(x) for x in got] == [toks(b)]
                else:
                    # a compound: two brace-balanced blocks holding, in order, the statements of the body without markers
                    ok = got is not None and len(got) == 2 and all(inner(x) is not None and balanced(inner(x)) for x in got) and \
                        all(M not in x for x in got) and \
                        nb(toks(inner(got[0])) + toks(inner(got[1]))) == nb(toks(inner(b.replace(M, ""))))
                if not ok:
                    p.failure("C19 load returns stale or wrong behaviour", {"insn": n, "body": b, "got": got, "round": r})
    finally:
        os.chdir(old)
        shutil.rmtree(d, ignore_errors=True)
    return p.d


def run_check(ctx):
    ctx.rule = ("all bundled lines (72 compounds) against an independent splitter + Hypothesis lines/compound bodies over the "
                "dialect's token alphabet (nested parentheses/braces, commas, ')' at the end, 'insn(' inside, trailing whitespace, "
                "text before/between/after the markers, marker counts 0..3) + successive loads of generated files; non-trivial = "
                "distinct body containing ')' ',' or braces / compound with text outside the markers")
    ctx.assumptions = ["oracle: assembly of (NAME, BODY) is the inverse; rejecting (raising) is always allowed"]
    n = 400000 if ctx.tier == "thorough" else 16000
    # witnesses of listed findings are always replayed
    from rzilcompiler.Preprocessor.Hexagon.PreprocessorHexagon import PreprocessorHexagon as PH
    for f in ctx.findings:
        if f.get("status") == "open" and "body" in f.get("witness", {}):
            part = run.Part()
            b = f["witness"]["body"]
            a_ = b.index(M); b_ = b.index(M, a_ + len(M))
            exp = toks(b[1:a_]) + toks(inner(b[a_ + len(M):b_]) or "") + toks(b[b_ + len(M):-1])
            check_compound(PH, b, exp, part, "C19 generated compound (pre)", {"body": b})
            part.ev()
            ctx.merge(part.d)
    run.run_sharded(ctx, corpus_part, [()], procs=1)
    run.run_sharded(ctx, hyp_part, [(n // 16, run.sub_seed(ctx.seed, "c19", i)) for i in range(16)])
    run.run_sharded(ctx, load_part, [(run.sub_seed(ctx.seed, "c19l", i), 12 if ctx.tier == "quick" else 60) for i in range(4)])
    fuzz_part(ctx, 20000 if ctx.tier == "quick" else 1000000)


def fuzz_part(ctx, runs):
    """coverage-guided byte-level target (atheris) for the three string helpers; failures become violations"""
    import json as _json
    d = tempfile.mkdtemp(prefix="c19fz_")
    try:
        out = os.path.join(d, "out.json")
        corp = os.path.join(d, "corpus")
        os.makedirs(corp)
        env = dict(os.environ, VERIF_REPO_DIR=boot.REPO_DIR,
                   PYTHONPATH=os.path.join(boot.VERIF_DIR, ".deps") + os.pathsep + boot.VERIF_DIR)
        subprocess.run(["/venv/bin/python", "-m", "vlib.fuzz_helpers", out, f"-runs={runs}", f"-seed={ctx.seed or 1}",
                        "-max_len=64", corp], env=env, cwd=boot.VERIF_DIR, stdout=subprocess.DEVNULL,
                       stderr=subprocess.DEVNULL, timeout=3600)
        try:
            res = _json.load(open(out))
        except Exception:
            res = {"available": False}
    finally:
        shutil.rmtree(d, ignore_errors=True)
    if not res.get("available"):
        ctx.count("atheris not available: byte-level target skipped (Hypothesis versions of the same oracles ran)")
        return
    ctx.evaluations += res["execs"]
    ctx.count("atheris executions", res["execs"])
    ctx.count("atheris non-trivial inputs", res["nontrivial"])
    for f in res["failures"]:
        ctx.failure("C19 fuzz: " + f["kind"], f["detail"])


def replay(rep):
    from rzilcompiler.Preprocessor.Hexagon.PreprocessorHexagon import PreprocessorHexagon as PH
    if "line" in rep and "expected" in rep:
        try:
            got = PH.split_resolved_shortcode(rep["line"])
        except Exception as e:
            return True, f"replay: rejected ({e})"
        return (list(got) == rep["expected"]), f"replay: {got}"
    if "body" in rep:
        try:
            r = PH.split_compounds(rep["body"])
        except Exception as e:
            return True, f"replay: rejected ({e})"
        return False, f"replay: {r}"
    return False, "replay: see file"
