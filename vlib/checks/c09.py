"""C09 - compile-time evaluation agrees with run-time evaluation.

Table: literal spellings (decimal/hex x suffix none/U/LL/ULL/u/ll/ull x values around 2^7 .. 2^64-1) observed through a
64-bit write, a shift (signedness) and sizeof (width); foldable unary (+ - ~) and binary (+ - * /) operators and
the six comparisons on literal pairs; division that is inexact or by zero must raise. Oracles: (i) the reference C
evaluator (C11 6.4.4.1 literal typing, LP64); (ii) metamorphic: the same expression with every literal replaced by
a local of the literal's C type (which the compiler cannot fold) must give the same final state. Constant-condition
?: with dead arms: the returned text must still declare everything it uses and agree with C.
"""
import itertools

from .. import boot, run, diff, progcheck
from ..cref.parse import literal_type, CParseError
from ..cref.ast import tname
from ..il import reader, static

VALUES = [0, 1, 2, 5, 127, 128, 255, 256, 32767, 32768, 65535, 65536, 2**31 - 1, 2**31, 2**32 - 1, 2**32, 2**63 - 1, 2**63,
          2**64 - 1]
SUFFIXES = ["", "U", "LL", "ULL", "u", "ll", "ull"]


def literals():
    out = []
    for v in VALUES:
        for base in ("dec", "hex"):
            for suf in SUFFIXES:
                txt = (str(v) if base == "dec" else hex(v))
                try:
                    val, ty = literal_type(txt, suf)
                except CParseError:
                    continue
                out.append((txt + suf, val, ty))
    return out


def lit_class(lit):
    """classes of listed findings a literal belongs to (predicates over the spelling)"""
    txt, val, ty = lit
    cls = set()
    suf = txt.lstrip("0123456789abcdefxABCDEFX")
    if suf == "" and ty != (True, 32):
        cls.add("unsuffixed-literal-not-int")
    if suf.upper() == "U" and ty != (False, 32):
        cls.add("U-literal-wider-than-32")
    if suf.upper() == "LL" and ty != (True, 64):
        cls.add("LL-literal-unsigned")
    return cls


def in_range(v, ty):
    return (-(1 << (ty[1] - 1)) <= v < (1 << (ty[1] - 1))) if ty[0] else (0 <= v < (1 << ty[1]))


def obs_classes(kind, obs, payload):
    """classes of listed findings a table cell belongs to (predicates over the cell)"""
    from ..cref.eval import common
    cls = set()
    if kind == "lit":
        lit = payload
        cls |= lit_class(lit)
        if obs in ("neg", "negshr") and not lit[2][0]:
            cls.add("negated-unsigned-literal-typed-signed")
        if obs in ("neg", "negshr", "not", "cmp0") and not in_range({"neg": -lit[1], "negshr": -lit[1], "not": ~lit[1],
                                                                      "cmp0": lit[1] - 1}[obs], common(lit[2], (True, 32))):
            cls.add("folded-result-not-wrapped-to-its-type")
    else:
        a, b = payload
        cls |= lit_class(a) | lit_class(b)
        t = common(a[2], b[2])
        if obs.startswith("cmpval"):
            cls.add("folded-comparison-used-as-value")
        if obs.startswith("fold"):
            op = obs[4]
            r = {"+": a[1] + b[1], "-": a[1] - b[1], "*": a[1] * b[1]}[op]
            if not in_range(r, t):
                cls.add("folded-result-not-wrapped-to-its-type")
    return cls


def programs_for_literal(lit):
    t = lit[0]
    return [("value", f"{{ RddV = (int64_t){t}; }}"), ("shr", f"{{ RddV = (int64_t)({t} >> 1); }}"),
            ("sizeof", f"{{ RddV = sizeof({t}); }}"), ("cmp0", f"{{ RddV = (({t} - 1) < 0) ? 1 : 2; }}"),
            ("neg", f"{{ RddV = (int64_t)(-{t}); }}"), ("not", f"{{ RddV = (int64_t)(~{t}); }}"),
            ("plus", f"{{ RddV = (int64_t)(+{t}); }}"), ("negshr", f"{{ RddV = (int64_t)((-{t}) >> 1); }}"),
            ("mixed", f"{{ RddV = (int64_t)({t} + RsV); }}")]


def programs_for_pair(a, b):
    out = []
    for op in ("+", "-", "*"):
        out.append((f"fold{op}", f"{{ RddV = (int64_t)({a[0]} {op} {b[0]}); }}"))
        out.append((f"fold{op}shr", f"{{ RddV = (int64_t)(({a[0]} {op} {b[0]}) >> 1); }}"))
    for op in ("<", ">", "<=", ">=", "==", "!="):
        out.append((f"cmp{op}", f"{{ RddV = ({a[0]} {op} {b[0]}) ? 1 : 2; }}"))
        out.append((f"cmpval{op}", f"{{ RddV = (int64_t)({a[0]} {op} {b[0]}); }}"))
    return out


STATE = {"regs": {"isa:d": {"w": 64, "old": 0, "new": 0}, "isa:s": {"w": 32, "old": 3, "new": 3}}, "imms": {}, "pc": 0,
         "npc": 4, "slot": 0, "mem_seed": 0, "cs": 0}

DEAD_ARM_TEMPLATES = [
    "{ RdV = 1 ? 2 : RsV; }", "{ RdV = 0 ? RsV : 7; }", "{ RdV = (1 == 1) ? RtV : RsV; }", "{ RdV = (3 < 2) ? RsV : RtV; }",
    "{ RdV = RsV; ReV = 1 ? 2 : RsV; }", "{ ReV = 1 ? 2 : RsV; RdV = RsV; }", "{ RdV = 1 ? RsV : (RsV + RtV); }",
    "{ RdV = 0 ? clz32(RsV) : RtV; }", "{ RdV = 1 ? RtV : ({ int32_t q = RsV; q; }); }", "{ int32_t a = RsV; RdV = 0 ? a : 5; ReV = a; }",
    "{ RdV = (2 > 1) ? siV : uiV; ReV = uiV; }", "{ RdV = sizeof(RsV) ? RtV : RsV; }",
    # the dead operand is also an operand of the operation the ?: belongs to (built after the fold)
    "{ RdV = RtV + (0 ? RtV : RuV); }", "{ RdV = RsV + (1 ? 4 : RsV); }", "{ mem_store_u32(RsV, (1 ? RtV : RsV)); }",
    "{ RdV = (RsV ? RtV : (0 ? RtV : RuV)); }", "{ RdV = ((2 > 1) ? RsV : RtV) + ((1 > 2) ? RsV : RtV); }",
    "{ RdV = siV + (1 ? 4 : siV); }", "{ RdV = (0 ? RsV : 3) + RsV; }", "{ if (RsV > (1 ? 2 : RsV)) { RdV = 1; } }",
]
# conditions whose value is known at compile time but is not a bare literal: a fold must use the *converted* value
CONST_CONDS = ["((uint8_t) 0x100)", "((int8_t) 0x100)", "((uint8_t) 0x101)", "((int16_t) 0x10000)", "((uint16_t) 0x18000)",
               "((int32_t) 0x100000000LL)", "((uint32_t) 4294967296)", "(!5)", "(!0)", "(-0)", "(1 - 1)", "(2 * 0)", "(3 - 2)",
               "((int64_t) 0)", "((uint8_t) (0x80 + 0x80))", "((uint16_t) -65536)", "(!(uint8_t) 0x100)", "(~0)", "((int8_t) 0x80)"]
CONST_COND_SHAPES = ["{ RdV = @ ? RsV : RtV; }", "{ RdV = @ ? 5 : clz32(8); }", "{ RdV = @ ? clz32(RsV) : RtV; }",
                     "{ if (@) { RdV = RsV; } else { RdV = RtV; } }",
                     "{ RdV = (@ ? 1 : 0) ? RsV : RtV; }", "{ RdV = RsV + (@ ? 1 : 2); }"]
CONST_COND_TEMPLATES = [sh.replace("@", k) for sh in CONST_COND_SHAPES for k in CONST_CONDS]

DIVISIONS = [("6 / 2", 3), ("7 / 2", None), ("1 / 0", None), ("-6 / 2", -3), ("100 / 10", 10), ("5 / 5", 1), ("0 / 5", 0),
             ("9223372036854775807LL / 1LL", 2**63 - 1), ("0xffffffffffffffffULL / 5ULL", (2**64 - 1) // 5),
             ("0x20000000000001LL / 1LL", 0x20000000000001), ("0xffffffffffffffffULL / 2ULL", None), ("7 / 7", 1)]


def judge_text(c, resolver, subs, text, state=STATE):
    """-> None (agree / rejected / discarded) | (kind, detail)"""
    st, il = progcheck.try_compile(c, text)
    if st != "ok":
        return "rejected", None
    try:
        body = reader.parse_body(il)
    except reader.ReadError as e:
        return "fail", ("il-unreadable", str(e)[:100])
    iss = static.check_c_body(body, params=["bundle"])
    if iss:
        return "fail", ("ill-formed " + iss[0][0], iss[0][1])
    r, _ = progcheck.judge_state(diff.parse_c(text), body, state, resolver, subs)
    if r is None:
        return "ok", None
    if r[0] == "discard":
        return "discard", r[1]
    return "fail", r


def table_worker(items, open_classes):
    p = run.Part()
    c = boot.compiler()
    resolver = diff.make_resolver(c)
    subs = diff.bundled_subs()
    for kind, payload in items:
        if kind == "lit":
            lit = payload
            for obs, text in programs_for_literal(lit):
                cls = obs_classes("lit", obs, lit) & open_classes
                p.ev()
                res, detail = judge_text(c, resolver, subs, text)
                p.count("literal:" + res)
                if lit[2] != (True, 32) or obs in ("neg", "not", "negshr"):
                    p.nontriv(text)
                if res == "fail":
                    tag = "class=" + ("+".join(sorted(cls)) if cls else "none")
                    p.failure(f"C09 literal {tag} obs={obs} type={tname(lit[2])} {detail[0]}",
                              {"program": text, "state": STATE, "literal": lit[0], "c_type": tname(lit[2]), "detail": detail[1]})
        elif kind == "pair":
            a, b = payload
            for obs, text in programs_for_pair(a, b):
                cls = obs_classes("pair", obs, (a, b)) & open_classes
                p.ev()
                res, detail = judge_text(c, resolver, subs, text)
                p.count("fold:" + res)
                p.nontriv(text)
                if res == "fail":
                    tag = "class=" + ("+".join(sorted(cls)) if cls else "none")
                    p.failure(f"C09 fold {tag} obs={obs} types={tname(a[2])},{tname(b[2])} {detail[0]}",
                              {"program": text, "state": STATE, "detail": detail[1]})
                # metamorphic: unfolded variant with typed locals
                if res == "ok" and not cls:   # (cls = classes of findings that are still open)
                    un = text.replace(a[0], "la", 1).replace(b[0], "lb", 1)
                    un = "{ " + f"{tname(a[2])} la = {a[0]}; {tname(b[2])} lb = {b[0]}; " + un[1:]
                    r2, d2 = judge_text(c, resolver, subs, un)
                    if r2 == "fail":
                        p.failure(f"C09 unfolded variant {obs} types={tname(a[2])},{tname(b[2])} {d2[0]}",
                                  {"program": un, "state": STATE, "detail": d2[1]})
        elif kind == "div":
            expr, want = payload
            text = f"{{ RddV = (int64_t)({expr}); }}"
            p.ev()
            res, detail = judge_text(c, resolver, subs, text)
            p.nontriv(text)
            p.count("division:" + res)
            if want is None and res != "rejected":
                p.failure("C09 inexact or zero division folded", {"program": text, "state": STATE, "result": res})
            elif res == "fail":
                p.failure(f"C09 exact division folded wrongly {detail[0]}", {"program": text, "state": STATE, "detail": detail[1]})
        elif kind == "dead":
            text = payload
            for k_, stt in enumerate(diff.simple_states(_ops(text), 4, 5)):
                p.ev()
                res, detail = judge_text(c, resolver, subs, text, stt)
                if res == "fail":
                    p.failure(f"C09 dead-arm {detail[0]}", {"program": text, "state": stt, "detail": detail[1]})
                    break
            p.nontriv(text)
    p.sample({"items": [str(x)[:80] for x in items[:2]]}, cap=1)
    return p.d


def _ops(text):
    from ..cref import operands_closure
    return operands_closure(diff.parse_c(text), diff.bundled_subs())


FINDING_SHAPES = {"sizeof-evaluates-operand": ["{ int32_t i = RsV; int32_t x = sizeof(i++); RdV = x + i; }",
                                               "{ int32_t i = RsV; RdV = sizeof(clz32(i++)) + i; }"]}


def run_check(ctx):
    import random
    ctx.rule = ("every literal spelling (19 values x dec/hex x 7 suffixes, C-valid ones) x 9 observers; literal pairs x (+ - *) and six "
                "comparisons (folded vs unfolded-with-typed-locals metamorphic variant); division table; dead-arm templates x states; "
                "non-trivial = distinct program whose literal does not have type int or that applies a sign-sensitive operator")
    ctx.assumptions = ["literal types per C11 6.4.4.1 with int=32, long=long long=64", "rejecting a fold is always allowed"]
    for f in ctx.findings:
        if f.get("status") == "open" and "program" in f.get("witness", {}):
            ok, msg = replay(f["witness"])
            ctx.evaluations += 1
            if not ok:
                ctx.known_hit[f["id"]] = f
    progcheck.judge_shapes(ctx, "C09", FINDING_SHAPES)
    lits = literals()
    rng = random.Random(ctx.seed)
    npairs = 1500 if ctx.tier == "thorough" else 150
    pairs = [(rng.choice(lits), rng.choice(lits)) for _ in range(npairs)]
    items = [("lit", l) for l in lits] + [("pair", pr) for pr in pairs] + [("div", d) for d in DIVISIONS] + \
            [("dead", t) for t in DEAD_ARM_TEMPLATES + CONST_COND_TEMPLATES]
    ctx.extra["literal_spellings"] = len(lits)
    chunks = [items[i::48] for i in range(48)]
    open_classes = set()
    for f in ctx.findings:
        if f.get("status") == "open":
            open_classes |= set(f.get("cell_classes", []))
    run.run_sharded(ctx, table_worker, [(c, open_classes) for c in chunks if c], procs=16)


def replay(rep):
    c = boot.compiler()
    res, detail = judge_text(c, diff.make_resolver(c), diff.bundled_subs(), rep["program"], rep.get("state", STATE))
    return (res != "fail"), f"replay: {res} {detail}"
