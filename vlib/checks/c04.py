"""C04 - common-type and promotion rules are exactly the C11 table.

Oracle: a five line reference function on (signed, width); checks totality, equality with the reference for
both returned types, symmetry, determinism, argument immutability (fields and identity) and promoted_type.
Quick: exhaustive over all widths the grammar/register model can produce (+ neighbours) and 20k Hypothesis
pairs over 1..2048. Thorough: all 4096 x 4096 ordered pairs (exhaustive).
"""
import itertools

from .. import run


def ref_common(a, b):
    (sa, wa), (sb, wb) = a, b
    if sa == sb:
        return (sa, max(wa, wb))
    (us, uw), (ss, sw) = (a, b) if not sa else (b, a)
    return (False, uw) if uw >= sw else (True, sw)


def ref_promote(t):
    return (True, 32) if t[1] < 32 else t


def _snap(vt):
    return (vt._signed, vt._bit_width, vt.group, vt.format, vt.external_type)


def rel_class(a, b):
    return f"{'s' if a[0] else 'u'}{'<' if a[1] < b[1] else '=' if a[1] == b[1] else '>'}{'s' if b[0] else 'u'}"


def check_pair(VT, c11_cast, a, b, groups=None):
    """returns list of (signature, detail) failures for the ordered pair (a, b)"""
    fails = []
    ga, gb = groups or (None, None)
    ta = VT(a[0], a[1]) if ga is None else VT(a[0], a[1], ga)
    tb = VT(b[0], b[1]) if gb is None else VT(b[0], b[1], gb)
    sa, sb = _snap(ta), _snap(tb)
    exp = ref_common(a, b)
    cls = rel_class(a, b)
    try:
        ra, rb = c11_cast(ta, tb)
        ra2, rb2 = c11_cast(ta, tb)
        qb, qa = c11_cast(tb, ta)
    except Exception as e:  # totality
        return [(f"c11_cast raises {type(e).__name__} {cls}", {"a": a, "b": b, "error": str(e)})]
    got = ((ra.signed, ra.bit_width), (rb.signed, rb.bit_width))
    if got != (exp, exp):
        fails.append((f"common-type mismatch {cls}", {"a": a, "b": b, "expected": exp, "got": got}))
    if ((ra2.signed, ra2.bit_width), (rb2.signed, rb2.bit_width)) != got:
        fails.append((f"non-deterministic {cls}", {"a": a, "b": b}))
    if ((qa.signed, qa.bit_width), (qb.signed, qb.bit_width)) != got:
        fails.append((f"asymmetric {cls}", {"a": a, "b": b, "ab": got,
                                             "ba": ((qa.signed, qa.bit_width), (qb.signed, qb.bit_width))}))
    if _snap(ta) != sa or _snap(tb) != sb:
        fails.append((f"argument mutated {cls}", {"a": a, "b": b, "a_after": _snap(ta)[:2], "b_after": _snap(tb)[:2]}))
    # a result that differs from its argument must be a different object (no aliasing of a changed type)
    if (ra is ta and got[0] != a) or (rb is tb and got[1] != b):
        fails.append((f"argument object returned as changed result {cls}", {"a": a, "b": b}))
    return fails


def check_promote(VT, promoted_type, t, group=None):
    fails = []
    vt = VT(t[0], t[1]) if group is None else VT(t[0], t[1], group)
    s = _snap(vt)
    try:
        r = promoted_type(vt)
        r2 = promoted_type(vt)
    except Exception as e:
        return [(f"promoted_type raises {type(e).__name__}", {"t": t, "error": str(e)})]
    exp = ref_promote(t)
    wcls = "<32" if t[1] < 32 else ">=32"
    if (r.signed, r.bit_width) != exp or (r2.signed, r2.bit_width) != exp:
        fails.append((f"promotion mismatch {wcls}", {"t": t, "expected": exp, "got": (r.signed, r.bit_width)}))
    if _snap(vt) != s:
        fails.append((f"promotion mutated argument {wcls}", {"t": t}))
    return fails


def _types():
    from rzilcompiler.Transformer.ValueType import ValueType, c11_cast, promoted_type
    return ValueType, c11_cast, promoted_type


def shard(widths_a, all_widths, want_samples):
    VT, c11_cast, promoted_type = _types()
    p = run.Part()
    signs = (False, True)
    for wa in widths_a:
        for sa in signs:
            a = (sa, wa)
            for f in check_promote(VT, promoted_type, a):
                p.failure(f"C04 {f[0]}", f[1])
            p.ev()
            p.nontriv((1 << 40) | (int(sa) << 12) | wa)
            for wb in all_widths:
                for sb in signs:
                    b = (sb, wb)
                    p.ev()
                    if a != b:
                        p.nontriv((int(sa) << 25) | (int(sb) << 24) | (wa << 12) | wb)
                        p.count("pair:" + rel_class(a, b))
                    for f in check_pair(VT, c11_cast, a, b):
                        p.failure(f"C04 {f[0]}", f[1])
    if want_samples:
        p.sample({"a": [True, widths_a[0]], "b": [False, all_widths[-1]],
                  "expected": ref_common((True, widths_a[0]), (False, all_widths[-1]))})
    return p.d


PRODUCIBLE = sorted(set(
    [1, 2, 4, 8, 16, 32, 64, 128, 256, 512, 1024, 2048] +  # intN_t / sizeN_t / registers / pairs / bool
    [8 * k for k in (1, 2, 4, 8, 16, 32, 64)] +             # size<k>[su]_t: k bytes, k in BIT_WIDTH
    [7, 9, 15, 17, 24, 31, 33, 40, 48, 56, 63, 65, 127, 129, 1023, 1025, 2047]))  # neighbours


def hypothesis_part(seed, n):
    import hypothesis
    from hypothesis import given, settings, strategies as st
    from rzilcompiler.Transformer.ValueType import VTGroup
    VT, c11_cast, promoted_type = _types()
    p = run.Part()
    groups = [VTGroup.PURE, VTGroup.PURE | VTGroup.CONST, VTGroup.PURE | VTGroup.HYBRID_LVAR,
              VTGroup.PURE | VTGroup.BOOL]
    ty = st.tuples(st.booleans(), st.one_of(st.integers(1, 2048), st.sampled_from(PRODUCIBLE)))

    @hypothesis.seed(seed)
    @settings(max_examples=n, database=None, deadline=None, derandomize=False,
              suppress_health_check=list(hypothesis.HealthCheck))
    @given(ty, ty, st.sampled_from(groups), st.sampled_from(groups))
    def prop(a, b, ga, gb):
        p.ev()
        if a != b:
            p.nontriv((a, b, str(ga), str(gb)))
            p.count("hyp:" + rel_class(a, b))
        # shared-object scenario: the same ValueType object referenced by two "owners"
        for f in check_pair(VT, c11_cast, a, b, (ga, gb)):
            p.failure(f"C04 {f[0]}", f[1])
        for f in check_promote(VT, promoted_type, a, ga):
            p.failure(f"C04 {f[0]}", f[1])
        p.sample({"a": a, "b": b, "group_a": str(ga), "group_b": str(gb), "expected": ref_common(a, b)}, cap=6)

    prop()
    return p.d


def run_check(ctx):
    ctx.rule = ("ordered pairs of (signed,width); exhaustive over the producible widths (quick) or over all "
                "1..2048 (thorough) plus Hypothesis pairs with group flags; non-trivial = the two types differ "
                "in sign or width (distinct pairs counted)")
    ctx.assumptions = ["reference = C11 6.3.1.8 with rank := bit width, as the property states"]
    if ctx.tier == "thorough":
        allw = list(range(1, 2049))
        chunks = [allw[i::64] for i in range(64)]
        run.run_sharded(ctx, shard, [(c, allw, i == 0) for i, c in enumerate(chunks)], procs=16)
        ctx.exhaustive = True
        n = 100_000
    else:
        chunks = [PRODUCIBLE[i::8] for i in range(8)]
        run.run_sharded(ctx, shard, [(c, PRODUCIBLE, i == 0) for i, c in enumerate(chunks)], procs=8)
        ctx.exhaustive = True
        ctx.extra["exhaustive_domain"] = f"{len(PRODUCIBLE)} producible widths x 2 signs, all ordered pairs"
        n = 20_000
    run.run_sharded(ctx, hypothesis_part, [(run.sub_seed(ctx.seed, "c04", i), n // 4) for i in range(4)], procs=4)




def replay(rep):
    VT, c11_cast, promoted_type = _types()
    if "t" in rep:
        f = check_promote(VT, promoted_type, tuple(rep["t"]))
    else:
        f = check_pair(VT, c11_cast, tuple(rep["a"]), tuple(rep["b"]))
    return (not f, f"replay: {f if f else 'holds'}")
