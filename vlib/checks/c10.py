"""C10 - emitted effects are well-sorted under RzIL typing (all paths; static sort checker over the term graph)."""
from .. import gen
from . import static_common

# generator classes of listed findings (see known_findings.json); switched on again when the witness stops failing
EXCLUDED = {"cmp_value", "logical_mixed", "compound_assign_narrow", "div", "calls_mixed_tmp_width", "const_cmp",
            "const_cond"}   # const_cond: declaration bookkeeping of folded ?: is judged by C09/C11/C12
FEATURES = gen.STATIC_FEATURES - EXCLUDED


def run_check(ctx):
    ctx.rule = ("every accepted corpus part (thorough: all; quick: 150 stratified) and every bundled sub-routine body, in both "
                "layouts, plus Hypothesis programs mixing narrow/wide types, compound assignments, ?: and calls; the sort checker "
                "visits every BRANCH/ITE arm and loop body; non-trivial = distinct (text, layout) with >= 6 emitted lines")
    ctx.assumptions = ["sort rules mirror rz_il_validate as documented in vlib/il/static.py; register widths from the "
                       "architectural table; sub-routine parameter widths from the declared C types"]
    static_common.run_static(ctx, "C10", FEATURES)


def replay(rep):
    return static_common.replay_static("C10", rep)
