"""C03 - casts and implicit conversions preserve the C value.

Exhaustive table: 8 source types (+ boolean source) x 8 target types x conversion contexts (explicit cast,
initialiser, assignment to local / Rd / Rdd / Pd / alias register, argument, return, store+load), executed on
boundary values (thorough: all 256 values for 8-bit sources), plus Hypothesis chains of up to three conversions.
Oracle: reference C evaluator vs RzIL interpreter.
"""
import itertools

from .. import boot, run, diff, gen, progcheck
from ..cref import make_subdef
from ..cref.ast import tname
from ..il import reader
from .c02 import B64, grid_states

TYPES = gen.INT_TYPES
CONTEXTS = ["cast", "init", "assign", "chainassign", "reg32", "reg64", "pred", "alias", "arg", "ret", "store",
            "compound_add", "compound_mul", "compound_sub", "compound_mod", "compound_div", "chainreg32", "chainpred"]


def tn(t):
    return tname(t)


def short(t):
    return f"{'s' if t[0] else 'u'}{t[1]}"


# source expressions that are not a typed local: QEMU bitops macros, whose C return type is the source type
MACRO_SRC = {(False, 32): ["bswap32((uint32_t)RssV)", "extract32((uint32_t)RssV, 4, 28)"],
             (False, 64): ["bswap64(RssV)", "extract64(RssV, 4, 60)"],
             (True, 64): ["sextract64(RssV, 4, 16)", "sextract64(RssV, 0, 40)"],
             (False, 16): ["bswap16((uint16_t)RssV)"]}


def cell_program(ctx, ts, tt):
    """-> (program text, effective target type)"""
    if "@" in ctx:
        ctx, k = ctx.split("@macro")
        text, tt_eff = cell_program(ctx, ts, tt)
        decl = f"{tn(ts)} a = ({tn(ts)})RssV;"
        assert decl in text
        import re as _re
        text = _re.sub(r"\ba\b", MACRO_SRC[ts][int(k)], text.replace(decl, ""))
        return text, tt_eff
    a = f"{tn(ts)} a = ({tn(ts)})RssV;"
    if ctx == "compound_add":
        return f"{{ {a} {tn(tt)} t = 1; t += a; RddV = (int64_t)t; }}", tt
    if ctx == "compound_mul":
        return f"{{ {a} {tn(tt)} t = 3; t *= a; RddV = (int64_t)t; }}", tt
    if ctx == "compound_mod":
        # computed in the common type of t and (a | 1), then converted back to the type of t
        return f"{{ {a} {tn(tt)} t = {'-7' if tt[0] else '250'}; t %= (a | 1); RddV = (int64_t)t; }}", tt
    if ctx == "compound_div":
        return f"{{ {a} {tn(tt)} t = {'-100' if tt[0] else '200'}; t /= (a | 1); RddV = (int64_t)t; }}", tt
    if ctx == "compound_sub":
        return f"{{ {a} {tn(tt)} t = 0; t -= a; RddV = (int64_t)t; }}", tt
    if ctx == "cast":
        return f"{{ {a} RddV = (int64_t)(({tn(tt)})a); }}", tt
    if ctx == "init":
        return f"{{ {a} {tn(tt)} t = a; RddV = (int64_t)t; }}", tt
    if ctx == "assign":
        return f"{{ {a} {tn(tt)} t; t = a; RddV = (int64_t)t; }}", tt
    if ctx == "chainassign":
        return f"{{ {a} {tn(tt)} t; int64_t w; w = t = a; RddV = w; }}", tt
    if ctx == "chainreg32":
        # the value of `ReV = a` is the converted value (32 bit signed), not a
        return f"{{ {a} int64_t w; w = ReV = a; RddV = w; }}", (True, 32)
    if ctx == "chainpred":
        return f"{{ {a} int64_t w; w = PeV = a; RddV = w; }}", (True, 8)
    if ctx == "reg32":
        return f"{{ {a} ReV = a; }}", (True, 32)
    if ctx == "reg64":
        return f"{{ {a} RddV = a; }}", (True, 64)
    if ctx == "pred":
        return f"{{ {a} PeV = a; }}", (True, 8)
    if ctx == "alias":
        return f"{{ {a} HEX_REG_ALIAS_LR = a; }}", (False, 32)
    if ctx == "arg":
        return f"{{ {a} RddV = (int64_t)c03_id_{short(tt)}(a); }}", tt
    if ctx == "ret":
        return f"{{ {a} RddV = (int64_t)c03_conv_{short(ts)}_{short(tt)}(a); }}", tt
    if ctx == "store":
        return (f"{{ {a} EA = RtV; mem_store_{'s' if tt[0] else 'u'}{tt[1]}(EA, a); "
                f"RddV = (int64_t)(({tn(tt)})mem_load_{'s' if tt[0] else 'u'}{tt[1]}(EA)); }}"), tt
    raise ValueError(ctx)


def bool_program(ctx, tt):
    a = "int32_t a = (int32_t)RssV; int32_t b = (int32_t)RttV;"
    if ctx == "cast":
        return f"{{ {a} RddV = (int64_t)(({tn(tt)})(a < b)); }}"
    if ctx == "init":
        return f"{{ {a} {tn(tt)} t = (a < b); RddV = (int64_t)t; }}"
    if ctx == "assign":
        return f"{{ {a} {tn(tt)} t; t = (a == b); RddV = (int64_t)t; }}"
    if ctx == "reg32":
        return f"{{ {a} ReV = (a != b); }}"
    if ctx == "reg64":
        return f"{{ {a} RddV = (a >= b); }}"
    if ctx == "pred":
        return f"{{ {a} PeV = (a > b); }}"
    return None


def classes_of(ctx, ts, tt_eff):
    out = set()
    if ctx in ("compound_mod", "compound_div") and ts is not None:
        from ..cref.eval import common, promote
        ct = common(promote(tt_eff), promote(ts))
        if (tt_eff[0] and not ct[0] and ct[1] > tt_eff[1]) or (ts[0] and not ct[0] and ct[1] > ts[1]):
            out.add("signed-to-wider-unsigned-zero-extends")
    if ts is not None and ts[0] and not tt_eff[0] and tt_eff[1] > ts[1]:
        out.add("signed-to-wider-unsigned-zero-extends")
    if ctx == "ret" and ts is not None and ts[0] and tt_eff[0] and tt_eff[1] > ts[1]:
        out.add("return-of-narrower-signed-value-zero-extends")
    return out


def register_subs(c, subs):
    """identity / converting sub-routines, registered through the public add_sub_routine API"""
    for t in TYPES:
        name = f"c03_id_{short(t)}"
        code = "{ return x; }"
        if name not in subs:
            with boot.quiet():
                c.add_sub_routine(name, tn(t), [f"{tn(t)} x"], code)
            subs[name] = make_subdef(name, tn(t), [f"{tn(t)} x"], code)
    for ts in TYPES:
        for tt in TYPES:
            name = f"c03_conv_{short(ts)}_{short(tt)}"
            if name not in subs:
                with boot.quiet():
                    c.add_sub_routine(name, tn(tt), [f"{tn(ts)} x"], "{ return x; }")
                subs[name] = make_subdef(name, tn(tt), [f"{tn(ts)} x"], "{ return x; }")


def table_worker(cells, tier, open_classes, tag="C03"):
    p = run.Part()
    c = boot.compiler()
    resolver = diff.make_resolver(c)
    subs = dict(diff.bundled_subs())
    try:
        register_subs(c, subs)
        subs_ok = True
    except Exception as e:
        p.count("sub-routine registration rejected: " + type(e).__name__)
        subs_ok = False
    for ctxname, ts, tt in cells:
        if ts is None:
            text = bool_program(ctxname, tt)
            if text is None:
                continue
            tt_eff = tt
            cellname = f"{ctxname} bool->{tn(tt)}"
        else:
            if ctxname.split("@")[0] in ("arg", "ret") and not subs_ok:
                continue
            text, tt_eff = cell_program(ctxname, ts, tt)
            cellname = f"{ctxname} {tn(ts)}->{tn(tt_eff)}"
        cls = classes_of(ctxname.split("@")[0], ts, tt_eff) & open_classes
        st, il = progcheck.try_compile(c, text)
        if st != "ok":
            p.count("cell:rejected")
            p.count("reject:" + ctxname + ":" + il[:50])
            continue
        p.count("cell:compiled")
        try:
            body = reader.parse_body(il)
        except reader.ReadError as e:
            p.failure(f"{tag} il-unreadable {cellname}", {"program": text, "error": str(e)})
            continue
        ast = diff.parse_c(text)
        if tier == "thorough" and ts is not None and ts[1] == 8:
            vals = list(range(256))
            p.count("cell:exhaustive 8-bit")
        else:
            vals = B64
        extra = {"isa:e": {"w": 8 if ctxname == "pred" else 32, "old": 0, "new": 0},
                 "alias:LR": {"w": 32, "old": 0, "new": 0}}
        extra["isa:e"]["w"] = 8 if ctxname.split("@")[0] in ("pred", "chainpred") else 32
        tvals = [0x1000] if ts is not None else B64
        states = grid_states(vals, tvals, extra)
        for s_ in states:
            if ts is not None:
                s_["regs"]["isa:t"] = {"w": 32, "old": 0x1000, "new": 0x1000}
        first = {}
        nfail = 0
        for stt in states:
            p.ev()
            r, _ = progcheck.judge_state(ast, body, stt, resolver, subs)
            v = stt["regs"]["isa:s"]["old"]
            if r is None:
                if ts is None or (v >> (ts[1] - 1)) & 1 or (v & ((1 << ts[1]) - 1)) >> min(tt_eff[1], ts[1] - 1):
                    p.nontriv((cellname, v & 0xFFFFFFFF, v >> 32))
                continue
            if r[0] == "discard":
                p.discard(r[1])
                continue
            nfail += 1
            first.setdefault(r[0], (stt, r[1]))
        for kind_, (stt, detail) in first.items():
            ctag = "class=" + ("+".join(sorted(cls)) if cls else "none")
            p.failure(f"{tag} table {ctag} {kind_} {cellname}",
                      {"program": text, "state": stt, "kind": kind_, "detail": detail, "failing_states": nfail})
        if len(p.d["samples"]) < 2:
            p.sample({"cell": cellname, "program": text, "states": len(states)})
    return p.d


def chain_worker(n, seed, features):
    """Hypothesis: chains of up to three conversions through mixed contexts"""
    import hypothesis
    from hypothesis import given, settings, Phase, strategies as st
    p = run.Part()
    c = boot.compiler()
    resolver = diff.make_resolver(c)
    subs = diff.bundled_subs()
    ty = st.sampled_from(TYPES)

    @hypothesis.seed(seed)
    @settings(max_examples=n, database=None, deadline=None, phases=[Phase.generate],
              suppress_health_check=list(hypothesis.HealthCheck))
    @given(ty, st.lists(ty, min_size=1, max_size=3), st.lists(st.sampled_from(["cast", "init", "assign"]), min_size=3,
                                                               max_size=3),
           st.lists(st.sampled_from(B64), min_size=6, max_size=6))
    def prop(ts, chain, ctxs, vals):
        if "widen_unsigned_from_signed" not in features:
            # exclusion by construction of the listed class: never convert signed -> wider unsigned
            fixed = []
            cur = ts
            for t in chain:
                if cur[0] and not t[0] and t[1] > cur[1]:
                    p.exclude("signed->wider-unsigned step in a chain (target made signed)")
                    t = (True, t[1])
                fixed.append(t)
                cur = t
            chain = fixed
        lines = [f"{tn(ts)} v0 = ({tn(ts)})RssV;"]
        cur = "v0"
        if ctxs[0] == "cast" and ctxs[1] == "cast":
            # nested explicit casts in one expression
            e = "v0"
            for t in chain:
                e = f"({tn(t)}){e}"
            lines.append(f"RddV = (int64_t){e};")
            chain_iter = []
            p.count("chain:nested casts")
        else:
            chain_iter = list(enumerate(zip(chain, ctxs)))
        for i, (t, cx) in chain_iter:
            nv = f"v{i + 1}"
            if cx == "cast":
                lines.append(f"{tn(t)} {nv} = ({tn(t)}){cur};")
            elif cx == "init":
                lines.append(f"{tn(t)} {nv} = {cur};")
            else:
                lines.append(f"{tn(t)} {nv}; {nv} = {cur};")
            cur = nv
        if chain_iter:
            lines.append(f"RddV = (int64_t){cur};")
        text = "{ " + " ".join(lines) + " }"
        st_, il = progcheck.try_compile(c, text)
        if st_ != "ok":
            p.count("chain:rejected")
            return
        body = reader.parse_body(il)
        ast = diff.parse_c(text)
        for stt in grid_states(vals, [0]):
            p.ev()
            r, _ = progcheck.judge_state(ast, body, stt, resolver, subs)
            if r is None:
                p.nontriv((text, stt["regs"]["isa:s"]["old"]))
            elif r[0] == "discard":
                p.discard(r[1])
            else:
                sig = "->".join(short(t) for t in [ts] + list(chain))
                p.failure(f"C03 chain {r[0]} {sig}", {"program": text, "state": stt, "kind": r[0], "detail": r[1]})
        p.sample({"chain": text}, cap=3)

    prop()
    return p.d


def run_check(ctx):
    ctx.rule = ("exhaustive (context x source type x target type) table incl. boolean sources on 27 boundary values "
                "(thorough: all 256 values of 8-bit sources) + Hypothesis chains of <= 3 conversions; non-trivial = distinct "
                "(cell, value) whose source has its top bit set or has bits above the target width")
    ctx.assumptions = ["reference = C11 6.3.1.3 with two's complement wrap for narrowing (gcc behaviour)",
                       "registers: R signed 32, pairs signed 64, P signed 8, alias LR unsigned 32 (documented types)"]
    enable = progcheck.replay_known(ctx, replay_fn=replay)
    open_classes = set()
    for f in ctx.findings:
        if f.get("status") == "open" and f["id"] in ctx.known_hit:
            open_classes |= set(f.get("cell_classes", []))
    cells = [(cx, ts, tt) for cx in CONTEXTS for ts in TYPES for tt in TYPES
             if not (cx in ("reg32", "reg64", "pred", "alias", "chainreg32", "chainpred") and tt != TYPES[0])]
    cells += [(cx, None, tt) for cx in ("cast", "init", "assign") for tt in TYPES]
    base_ctx = ["cast", "init", "assign", "reg32", "reg64", "pred", "alias", "arg", "ret", "store"]
    cells += [(f"{cx}@macro{k}", ts, tt) for cx in base_ctx for ts in MACRO_SRC for k in range(len(MACRO_SRC[ts])) for tt in TYPES
              if not (cx in ("reg32", "reg64", "pred", "alias") and tt != TYPES[0])]
    cells += [(cx, None, TYPES[0]) for cx in ("reg32", "reg64", "pred")]
    chunks = [cells[i::32] for i in range(32)]
    run.run_sharded(ctx, table_worker, [(c, ctx.tier, open_classes) for c in chunks], procs=16)
    ctx.extra["table_cells"] = len(cells)
    n = 20000 if ctx.tier == "thorough" else 1000
    feats = frozenset(enable)
    run.run_sharded(ctx, chain_worker, [(n // 16, run.sub_seed(ctx.seed, "c03", i), feats) for i in range(16)])


def replay(rep):
    c = boot.compiler()
    subs = dict(diff.bundled_subs())
    register_subs(c, subs)
    resolver = diff.make_resolver(c)
    st, il = progcheck.try_compile(c, rep["program"])
    if st != "ok":
        return True, "replay: rejected now " + il
    r, _ = progcheck.judge_state(diff.parse_c(rep["program"]), reader.parse_body(il), rep["state"], resolver, subs)
    if r is None or r[0] == "discard":
        return True, f"replay: {r}"
    return False, f"replay: {r}"
