"""C15 - nothing in the source is silently dropped: translate it or raise.

(a) insertion metamorphic: a supported generated base program gets one unsupported construct inserted at a
    statement position (between two state-changing statements, inside an if arm, inside a loop body) or, for
    expression forms, in place of a sub-expression. Expected: an exception. Returned code => violation.
(b) reachability: in every returned text all declared effect variables are reachable from the returned effect.
(c) full grammar: hypothesis.extra.lark.from_lark over the bundled grammar; whenever compile_c_stmt returns code the
    source must not contain a token the reference front end tags as unsupported, and (b) must hold.
"""
import collections
import os
import re

from .. import boot, run, diff, gen, progcheck
from ..cref import show, walk
from ..cref.parse import lex, CParseError
from ..il import reader, static

STMT_CONSTRUCTS = {
    "break": ("raw", "break;"),
    "continue": ("raw", "continue;"),
    "goto": ("raw", "goto lbl;"),
    "label": ("raw", "lbl: RdV = 7;"),
    "comma": ("raw", "RdV = 1, ReV = 2;"),
    "while": ("raw", "while (RsV) { RdV = 1; }"),
    "do-while": ("raw", "do { RdV = 1; } while (RsV);"),
    "switch": ("raw", "switch (RsV) { case 1: RdV = 1; }"),
    "unknown-call-noargs": ("raw", "c15_unknown();"),
    "unknown-call-args": ("raw", "c15_unknown(RsV);"),
    "pointer-store": ("raw", "*RsV = 1;"),
    "array-store": ("raw", "RsV[1] = 2;"),
    "member-store": ("raw", "RsV.f = 2;"),
    "pre-increment": ("raw", "++RxV;"),
    # the same keywords in shapes that avoid the label / break handlers
    "switch-nolabel": ("raw", "switch (RsV) { RdV = 1; }"),
    "switch-unbraced": ("raw", "switch (RsV) RdV = 1;"),
    "switch-empty": ("raw", "switch (RsV) { }"),
    "while-empty": ("raw", "while (RsV) ;"),
    "while-unbraced": ("raw", "while (RsV) RdV = 1;"),
    "do-while-unbraced": ("raw", "do RdV = 1; while (RsV);"),
    "goto-in-if": ("raw", "if (RsV) goto lbl;"),
    "break-in-if": ("raw", "if (RsV) break;"),
    "label-empty": ("raw", "lbl: ;"),
    "comma-in-for": ("raw", "for (i = 0, j = 1; i < 2; i++) { RdV = j; }"),
    "comma-in-condition": ("raw", "if (RdV = 1, RsV) { ReV = 2; }"),
}
EXPR_CONSTRUCTS = {
    "array-read": "RsV[1]", "member-read": "RsV.f", "arrow-read": "RsV->f", "deref": "*RsV", "address-of": "&RsV",
    "unknown-call-value": "c15_unknown(RsV)", "comma-value": "(RsV, RtV)", "pre-increment-value": "++RxV",
    "sizeof-type": "sizeof(int)", "string": "\"abc\"",
}
# keywords of the constructs the property lists (storage-class / qualifier keywords are not statements or side effects)
UNSUPPORTED_WORDS = {"break", "continue", "goto", "while", "do", "switch", "case", "default"}

# shapes at the edge of what is supported: accepted => everything must be reachable and agree with the C reference
TEMPLATES = ["{ RdV = ReV = 5; }", "{ RdV = ReV = RxV = 0x55; }", "{ int32_t i = 0; RdV = ReV = i++; RxV = i; }",
             "{ RdV = ReV = clz32(RtV); }", "{ int32_t a; int32_t b; a = b = RsV + 1; RdV = a + b; }",
             "{ int32_t a; int32_t b; int32_t c; a = b = c = RsV; RdV = a + b + c; }", "{ RdV = (ReV = RsV) + 1; }",
             "{ if (RsV) RdV = 1; else RdV = 2; }", "{ for (i = 0; i < 3; i++) RxV += i; }", "{ ; ; RdV = 1; ; }",
             "{ { { RdV = 1; } } ReV = 2; }", "{ RdV = 1; { } ReV = 2; }"]

TEMPLATES += ["{ ({ RdV = 1; ReV = 2; RxV = 3; }); }", "{ if (RsV) ({ RdV = 1; ReV = 2; RxV = 3; }); }",
              "{ ({ RdV = RsV; ReV = RtV; RxV += 1; RxV += 2; }); ReV = ReV + 1; }",
              "{ for (i = 0; i < 2; i++) ({ RxV += i; RdV = RxV; ReV = i; }); }",
              "{ if (RsV) { RdV = 1; } else ({ RdV = 2; ReV = 3; RxV = 4; }); }",
              "{ int32_t seq = 1; RdV = RsV + seq; ReV = RsV + seq++; RxV = seq; }",
              "{ int32_t branch = RsV; if (branch) { RdV = 1; } }", "{ int32_t empty = RsV; ; RdV = empty; }",
              "{ int32_t nop = 2; RdV = nop; }", "{ int32_t cond = RsV; RdV = cond ? RtV : 5; }",
              "{ int32_t jump = RsV; JUMP(jump); }", "{ int32_t seq_then = RsV; if (RtV) { RdV = seq_then; } else { ReV = 1; } }",
              "{ int32_t cast = RsV; RddV = cast; }", "{ int32_t h_tmp = RsV; RdV = h_tmp++; ReV = h_tmp; }",
              "{ uint32_t ml = RsV; RdV = (int32_t) mem_load_s8(ml); }", "{ uint32_t ms = RsV; mem_store_u8(ms, RtV); RdV = ms; }"]

# names the compiler derives from operand text plus a running id must not collide with a user's variable
TEMPLATES += [f"{{ uint32_t Rs_{k} = 64; RdV = (int32_t) mem_load_s32(RsV); ReV = (int32_t) mem_load_s32(Rs_{k}); }}" for k in range(1, 9)] + \
             [f"{{ uint32_t Rs_{k} = 64; if (RtV) {{ JUMP(RsV); }} else {{ JUMP(Rs_{k}); }} }}" for k in range(1, 12)] + \
             ["{ uint32_t const_5 = 7; RdV = 5; ReV = const_5; }", "{ uint32_t const_1 = 9; RdV = RsV + 1; ReV = const_1; }",
              "{ ({ RdV = 1; ReV = 2; ({ RxV = 3; RxV += 4; RxV += 5; }); }); }",
              "{ if (RsV) ({ RdV = 1; ReV = 2; ({ RxV = 3; RxV += 4; RxV += 5; }); }); }",
              "{ RdV = RxV += RsV; }", "{ RdV = RxV = RxV + 1; }", "{ int32_t a; a = RxV -= RsV; RdV = a + RxV; }",
              # value-producing operations whose consumer is ignored (fatal) still have to be sequenced
              "{ int32_t n = RsV; fatal(n--); RdV = n; }", "{ int32_t n = RsV; fatal(clz32(n)); RdV = n; }",
              "{ int32_t n = RsV; if (RtV) { fatal(n++); } RdV = n; }"]

BASE_FEATURES = gen.SAFE_CORE
STATIC_RENAMES = ["seq", "branch", "empty", "nop", "cond", "jump", "cast", "seq_then", "seq_else", "h_tmp", "op", "tmp",
                  "ml", "ms", "imm_assign", "gcc_expr", "set_return_val", "instruction_sequence", "call", "loop", "val"]
C_RESERVED = {"if", "else", "for", "while", "do", "switch", "case", "default", "break", "continue", "goto", "return",
              "sizeof", "int", "char", "short", "long", "signed", "unsigned", "void", "const", "static", "extern", "auto",
              "register", "volatile", "float", "double", "struct", "union", "enum", "typedef", "inline", "restrict",
              "bool", "true", "false"}


def rename_pool():
    """names a local variable may legally have and that the transformer also uses as base name of an op:
    first string literal of every call in the transformer sources, plus a static list"""
    names = set(STATIC_RENAMES)
    for rel in ("rzilcompiler/Transformer/RZILTransformer.py", "rzilcompiler/HexagonExtensions.py"):
        try:
            with open(os.path.join(boot.REPO_DIR, rel)) as f:
                src = f.read()
        except OSError:
            continue
        names.update(m.group(1).rstrip("_") for m in re.finditer(r'\(\s*f?"([A-Za-z_][A-Za-z_0-9]*)(?:\{[^"]*)?"', src))
    return sorted(n for n in names if n and n not in C_RESERVED and re.fullmatch(r"[a-z_][a-z_0-9]*", n))


def insert_positions(stmts):
    """paths of statement lists with insertion indexes: (path-to-list, index, position kind)"""
    out = []

    def rec(lst, path, kind):
        for i in range(len(lst) + 1):
            between = 0 < i < len(lst)
            out.append((path, i, kind + (":between" if between else ":edge")))
        for i, s in enumerate(lst):
            if s[0] == "block":
                rec(s[1], path + (i, 1), kind)
            elif s[0] == "if":
                if s[2][0] == "block":
                    rec(s[2][1], path + (i, 2, 1), "if-arm")
                if s[3] is not None and s[3][0] == "block":
                    rec(s[3][1], path + (i, 3, 1), "else-arm")
            elif s[0] == "for" and s[4][0] == "block":
                rec(s[4][1], path + (i, 4, 1), "loop-body")
    rec(stmts, (), "top")
    return out


def insert_at(stmts, path, idx, new):
    if not path:
        return stmts[:idx] + [new] + stmts[idx:]
    i = path[0]
    node = stmts[i]
    rest = path[1:]

    def into(node, rest):
        j = rest[0]
        if len(rest) == 1:
            # node[j] is the statement list
            lst = node[j]
            return node[:j] + (lst[:idx] + [new] + lst[idx:],) + node[j + 1:]
        child = node[j]
        if isinstance(child, list):
            k = rest[1]
            newchild = child[:k] + [into(child[k], rest[2:])] + child[k + 1:]
            return node[:j] + (newchild,) + node[j + 1:]
        return node[:j] + (into(child, rest[1:]),) + node[j + 1:]
    return stmts[:i] + [into(node, rest)] + stmts[i + 1:]


def expr_sites(stmts):
    """(path, node) of replaceable sub-expressions (operand leaves)"""
    out = []
    for path, node in progcheck._paths(stmts):
        if isinstance(node, tuple) and node and node[0] == "opnd" and node[1].kind == "reg" and node[1].access == "r":
            out.append(path)
    return out


def unreachable_effects(il):
    try:
        body = reader.parse_body(il)
    except reader.ReadError as e:
        return ["unreadable: " + str(e)[:80]]
    names, raw, dup = static.count_uses(body)
    return [n for n, k in names.items() if k == "effect" and raw[n] == 0]


def insertion_worker(nprog, seed):
    import hypothesis
    from hypothesis import given, settings, Phase, strategies as st
    p = run.Part()
    c = boot.compiler()

    @hypothesis.seed(seed)
    @settings(max_examples=nprog, database=None, deadline=None, phases=[Phase.generate],
              suppress_health_check=list(hypothesis.HealthCheck))
    @given(gen.program(BASE_FEATURES, depth=2, nest=2, lo=2, hi=4), st.data())
    def prop(pe, data):
        stmts, env = pe
        stmts = gen.normalize(stmts, BASE_FEATURES, None, {})
        base_text = show.program(stmts)
        st0, il0 = progcheck.try_compile(c, base_text)
        if st0 != "ok":
            p.count("base:rejected")
            return
        un = unreachable_effects(il0)
        p.ev()
        if un:
            p.failure("C15 base program has unreachable effects", {"program": base_text, "unreachable": un[:5]})
        poss = insert_positions(stmts)
        for _ in range(4):
            cname = data.draw(st.sampled_from(sorted(STMT_CONSTRUCTS)))
            path, idx, kind = data.draw(st.sampled_from(poss))
            mutated = insert_at(stmts, path, idx, STMT_CONSTRUCTS[cname])
            text = show.program(mutated)
            p.ev()
            st1, il1 = progcheck.try_compile(c, text)
            if kind.endswith(":between") or kind.split(":")[0] != "top":
                p.nontriv((cname, kind, text))
            p.count(f"inserted:{cname}")
            if st1 == "ok":
                p.failure(f"C15 accepted-and-dropped {cname} [{kind.split(':')[0]}]",
                          {"program": text, "construct": cname, "position": kind, "il_tail": il1[-300:]})
        sites = expr_sites(stmts)
        for _ in range(2):
            if not sites:
                break
            cname = data.draw(st.sampled_from(sorted(EXPR_CONSTRUCTS)))
            path = data.draw(st.sampled_from(sites))
            mutated = progcheck._replace_path(stmts, path, ("raw", EXPR_CONSTRUCTS[cname]))
            text = show.program(mutated)
            p.ev()
            st1, il1 = progcheck.try_compile(c, text)
            p.nontriv((cname, "expr", text))
            p.count(f"inserted:{cname}")
            if st1 == "ok":
                p.failure(f"C15 accepted-and-dropped {cname} [expression]",
                          {"program": text, "construct": cname, "il_tail": il1[-300:]})
        p.sample({"base": base_text[:200]}, cap=2)

    prop()
    return p.d


LOCAL_DECL = re.compile(r"\bu?int(?:8|16|32|64)_t\s+([A-Za-z_]\w*)\s*[=;]")


def effect_count(il):
    return len(re.findall(r"^RzILOpEffect \*", il, flags=re.M))


def stmt_lists(stmts):
    """(path, list) of every statement list of the program"""
    out = [((), stmts)]
    for path, node in progcheck._paths(stmts):
        if isinstance(node, tuple) and node and node[0] == "block" and isinstance(node[1], list):
            out.append((path + (1,), node[1]))
    return out


def supported_worker(nprog, seed):
    """(d1) rename metamorphic, (d2) statement-expression wrapping"""
    import hypothesis
    from hypothesis import given, settings, Phase, strategies as st
    from ..cref import operands_closure
    p = run.Part()
    c = boot.compiler()
    resolver = diff.make_resolver(c)
    subs = diff.bundled_subs()
    pool = rename_pool()

    @hypothesis.seed(seed)
    @settings(max_examples=nprog, database=None, deadline=None, phases=[Phase.generate],
              suppress_health_check=list(hypothesis.HealthCheck))
    @given(gen.program(BASE_FEATURES, depth=2, nest=2, lo=2, hi=4), st.data())
    def prop(pe, data):
        stmts, env = pe
        stmts = gen.normalize(stmts, BASE_FEATURES, None, {})
        base_text = show.program(stmts)
        st0, il0 = progcheck.try_compile(c, base_text)
        if st0 != "ok":
            p.count("base:rejected")
            return
        # (d1)
        locs = sorted(set(LOCAL_DECL.findall(base_text)))
        for _ in range(2):
            if not locs:
                break
            old = data.draw(st.sampled_from(locs))
            new = data.draw(st.sampled_from(pool))
            if re.search(rf"\b{re.escape(new)}\b", base_text):
                continue
            text = re.sub(rf"\b{re.escape(old)}\b", new, base_text)
            p.ev()
            st1, il1 = progcheck.try_compile(c, text)
            if st1 != "ok":
                p.count("rename:rejected")      # raising is allowed by the property
                continue
            p.count("rename:accepted")
            p.nontriv(("rename", new, text))
            un = unreachable_effects(il1)
            if un:
                p.failure(f"C15 local named like an internal op: unreachable effects [{new}]",
                          {"program": text, "renamed": [old, new], "unreachable": un[:5]})
            elif effect_count(il1) != effect_count(il0):
                p.failure(f"C15 local named like an internal op: number of effects changes [{new}]",
                          {"program": text, "renamed": [old, new], "effects": [effect_count(il0), effect_count(il1)]})
        # (d2)
        cands = []
        for path, lst in stmt_lists(stmts):
            for i, s_ in enumerate(lst):
                if s_[0] == "expr":
                    cands.append((path, i))
        if cands:
            path, i = data.draw(st.sampled_from(cands))
            lst = stmts
            for k in path:
                lst = lst[k]
            j = i
            while j < len(lst) and lst[j][0] == "expr" and j - i < 5:
                j += 1
            runl = list(lst[i:j])
            want = data.draw(st.sampled_from([1, 2, 3, 3, 3, 4, 4, 5]))
            runl = runl[:want]
            while len(runl) < want:
                runl.append(runl[-1])
            wrapped = ("expr", ("stmtexpr", runl[:-1], runl[-1][1]))
            newlst = list(lst[:i]) + [wrapped] + list(lst[i + min(j - i, want):])
            mutated = progcheck._replace_path(stmts, path, newlst) if path else newlst
            text = show.program(mutated)
            p.ev()
            st1, il1 = progcheck.try_compile(c, text)
            if st1 != "ok":
                p.count(f"wrap:rejected len={want}")
            else:
                p.count(f"wrap:accepted len={want}")
                p.nontriv(("wrap", text))
                un = unreachable_effects(il1)
                if un:
                    p.failure(f"C15 statement-expression statement: unreachable effects [{'top' if not path else 'nested'}]",
                              {"program": text, "unreachable": un[:5]})
                else:
                    try:
                        ast = diff.parse_c(text)
                        body = reader.parse_body(il1)
                        for stt in diff.simple_states(operands_closure(ast, subs), 4, 5):
                            r, _ = progcheck.judge_state(ast, body, stt, resolver, subs)
                            if r is not None and r[0] != "discard":
                                p.failure(f"C15 statement-expression statement: {r[0]}",
                                          {"program": text, "state": stt, "detail": r[1]})
                                break
                    except Exception as e:
                        p.count("wrap:not judged " + type(e).__name__)
        p.sample({"base": base_text[:200]}, cap=2)

    prop()
    return p.d


def grammar_worker(n, seed):
    """token strings from the full bundled grammar"""
    import hypothesis
    from hypothesis import given, settings, Phase
    from hypothesis.extra.lark import from_lark
    from lark import Lark
    p = run.Part()
    c = boot.compiler()
    with open(os.path.join(boot.REPO_DIR, "Resources/Hexagon/grammar.lark")) as f:
        g = Lark(f.read(), start="fbody", parser="earley")

    @hypothesis.seed(seed)
    @settings(max_examples=n, database=None, deadline=None, phases=[Phase.generate],
              suppress_health_check=list(hypothesis.HealthCheck))
    @given(from_lark(g, start="fbody"))
    def prop(text):
        if len(text) > 160:
            return
        p.ev()
        st1, il = progcheck.try_compile(c, text)
        if st1 != "ok":
            p.count("grammar:rejected")
            return
        p.count("grammar:accepted")
        p.nontriv(text)
        try:
            words = {t[1] for t in lex(text) if t[0] == "id"}
        except CParseError:
            words = set()
        bad = sorted(words & UNSUPPORTED_WORDS)
        if bad:
            p.failure(f"C15 grammar sentence with unsupported token accepted: {bad[0]}", {"program": text, "tokens": bad,
                                                                                           "il_tail": il[-200:]})
        un = unreachable_effects(il)
        if un:
            import re as _re
            cause = "labelled statement" if _re.search(r"(\bdefault\b|\bcase\b|[A-Za-z_]\w*)\s*:", text) else \
                    "comma expression" if "," in text else "other"
            p.failure(f"C15 returned text has unreachable effects [{cause}]", {"program": text, "unreachable": un[:5]})
        p.sample({"accepted_sentence": text[:120]}, cap=3)

    prop()
    return p.d


def template_part(ctx):
    from ..cref import operands_closure
    c = boot.compiler()
    resolver = diff.make_resolver(c)
    subs = diff.bundled_subs()
    for text in TEMPLATES:
        ctx.evaluations += 1
        st1, il = progcheck.try_compile(c, text)
        if st1 != "ok":
            ctx.count("template:rejected")
            continue
        ctx.count("template:accepted")
        ctx.nontriv(("template", text))
        un = unreachable_effects(il)
        if un:
            ctx.failure("C15 template: returned text has unreachable effects", {"program": text, "unreachable": un[:5], "il": il})
        try:
            ast = diff.parse_c(text)
            body = reader.parse_body(il)
            for stt in diff.simple_states(operands_closure(ast, subs), 6, 3):
                r, _ = progcheck.judge_state(ast, body, stt, resolver, subs)
                if r is not None and r[0] != "discard":
                    ctx.failure(f"C15 template: {r[0]}", {"program": text, "state": stt, "detail": r[1], "il": il})
                    break
        except Exception as e:
            ctx.count("template:not judged " + type(e).__name__)


SUB_BODIES = [("ret-call", "uint32_t", ["uint32_t x"], "{ return clz32(x); }"),
              ("ret-call-expr", "uint32_t", ["uint32_t x"], "{ return clz32(~x) + 1; }"),
              ("ret-postinc", "uint32_t", ["uint32_t x"], "{ uint32_t t = x; return t++; }"),
              ("ret-nested-call", "uint32_t", ["uint32_t x"], "{ return clo32(clz32(x)); }"),
              ("ret-in-if", "uint32_t", ["uint32_t x"], "{ if (x) { return clo32(x); } return 0; }"),
              ("stmt-then-ret", "uint32_t", ["uint32_t x"], "{ uint32_t t = x; t++; clz32(t); return t; }"),
              ("ret-cond-call", "uint32_t", ["uint32_t x"], "{ return x ? clz32(x) : 32; }")]


def subroutine_part(ctx):
    """(e) sub-routine bodies: every effect declared in the emitted definition is reachable from its return
    (bundled bodies and template bodies whose `return` consumes a value-producing operation)"""
    import json
    from rzilcompiler.Transformer.Hybrids.SubRoutine import SubRoutineInitType
    c = boot.new_compiler("stmt")
    with open(os.path.join(boot.REPO_DIR, "Resources/Hexagon/sub_routines.json")) as f:
        names = list(json.load(f)["sub_routines"])
    for tag, ret, params, body in SUB_BODIES:
        name = f"c15_{tag.replace('-', '_')}_{os.getpid()}"
        try:
            with boot.quiet():
                c.add_sub_routine(name, ret, params, body)
            names.append(name)
        except Exception:
            ctx.count("sub-routine body rejected")
    for name in names:
        ctx.evaluations += 1
        try:
            text = c.get_sub_routine(name).il_init(SubRoutineInitType.DEF)
            _, _, body = reader.parse_subroutine_def(text)
        except Exception as e:
            ctx.count("sub-routine definition unreadable " + type(e).__name__)
            continue
        ctx.nontriv(("subroutine", name.split(str(os.getpid()))[0]))
        nm, raw, dup = static.count_uses(body)
        un = [n for n, k in nm.items() if k == "effect" and raw[n] == 0]
        if un:
            ctx.failure(f"C15 sub-routine body has unreachable effects [{name.split('_' + str(os.getpid()))[0]}]",
                        {"sub_routine": name, "unreachable": un[:5], "definition": text})


def run_check(ctx):
    ctx.rule = ("(a) Hypothesis base programs x 4 statement-level + 2 expression-level insertions of unsupported constructs at generated "
                "positions (top level between statements, if/else arms, loop bodies, operand positions); (b) unreachable-effect scan of "
                "every returned text; (c) sentences from the full grammar via from_lark; non-trivial = distinct mutated program whose "
                "construct sits between two statements or inside an arm/body, and distinct accepted grammar sentence")
    ctx.assumptions = ["raising any exception counts as 'rejected'", "base programs come from the supported dialect (safe core)"]
    # witnesses of listed findings are always replayed
    for f in ctx.findings:
        if f.get("status") == "open" and "program" in f.get("witness", {}):
            ok, msg = replay(f["witness"])
            ctx.evaluations += 1
            if not ok:
                ctx.known_hit[f["id"]] = f
    template_part(ctx)
    subroutine_part(ctx)
    n1, n2 = (6000, 12000) if ctx.tier == "thorough" else (320, 320)
    n3 = 6000 if ctx.tier == "thorough" else 480
    ctx.extra["rename_pool"] = rename_pool()
    run.run_sharded(ctx, supported_worker, [(n3 // 16, run.sub_seed(ctx.seed, "c15d", i)) for i in range(16)])
    run.run_sharded(ctx, insertion_worker, [(n1 // 16, run.sub_seed(ctx.seed, "c15a", i)) for i in range(16)])
    run.run_sharded(ctx, grammar_worker, [(n2 // 16, run.sub_seed(ctx.seed, "c15c", i)) for i in range(16)])


def replay(rep):
    c = boot.compiler()
    st1, il = progcheck.try_compile(c, rep["program"])
    if st1 != "ok":
        return True, "replay: rejected (" + il + ")"
    return False, "replay: still accepted; text tail: " + il[-200:]
