"""C05 - statements take effect in source order under exactly C's conditions.

Generated statement sequences (declarations, simple/compound assignment to 32/64-bit locals and registers,
if/else chains, for loops incl. nested and data-dependent trip counts, memory stores, nested blocks) whose
expressions come from the 'safe core' (32/64 bit operands; no construct with a listed finding), executed by the
reference C evaluator and by the RzIL interpreter on generated states; final states must agree.
"""
from .. import run, gen, progcheck

FEATURES = gen.SAFE_CORE | {"hyb_inc", "div", "chain_assign", "unbraced", "hyb_unused_stmt", "narrow", "compound_assign_narrow"}   # postfix ++/-- also inside if conditions: the branch must see the old value


def _nontrivial(stmts, judged):
    return progcheck.has_kind(stmts, {"if", "for"}) and judged >= 2


def _classify(stmts):
    out = []
    for k in ("if", "for", "store", "block", "empty"):
        if progcheck.has_kind(stmts, {k}):
            out.append(k)
    from ..cref import walk
    if any(n and n[0] == "assign" and n[1] != "=" for n in walk(stmts)):
        out.append("compound-assign")
    if any(n and n[0] == "for" and progcheck.has_kind(n[4], {"for"}) for n in walk(stmts)):
        out.append("nested-for")
    if any(n and n[0] == "if" and n[3] is not None for n in walk(stmts)):
        out.append("if-else")
    return out


FINDING_SHAPES = {
    "block-scope": ["{ int32_t a = 1; { int32_t a = 2; } RdV = a; }", "{ int32_t a = 1; if (RsV) { int64_t a = 2; RxxV = a; } ReV = a; }",
                    "{ int32_t a = RsV; for (i = 0; i < 2; i++) { int32_t a = i; RxV += a; } RdV = a; }"],
}


def after_failure_part(ctx):
    """statements of a behaviour that was rejected must not take effect in the next one: after a compilation that
    raised with value-producing operations pending, an accepted program is judged against the C reference"""
    from . import c11, c14
    from .. import boot, diff
    from ..cref import operands_closure
    from ..il import reader
    c = boot.new_compiler()
    resolver = diff.make_resolver(c)
    subs = diff.bundled_subs()
    fails = list(c14.FAILING) + list(c11.AFTER_FAILURE_FAIL) + ["{ int32_t k = RsV; if (k++ > 2) { goto out; } RxV = k; }",
                                                                "{ int32_t k = RsV; int32_t j; j = k--, RdV = j; }"]
    goods = ["{ int32_t k = RsV; k++; RdV = k; }", "{ int32_t k = RtV; if (k-- > 1) { RdV = k; } else { RdV = 7; } }",
             "{ RdV = clz32(RsV) + 1; }", "{ int32_t k = 1; for (i = 0; i < 2; i++) { k = k * 3; } RdV = k++; ReV = k; }"]
    for i, bad in enumerate(fails):
        st, _ = progcheck.try_compile(c, bad)
        if st == "ok":
            ctx.count("after-failure: 'failing' program accepted")
            continue
        text = goods[i % len(goods)]
        ctx.evaluations += 1
        st, il = progcheck.try_compile(c, text)
        if st != "ok":
            ctx.failure("C05 after-failure: accepted program raises after a rejected one", {"failing": bad, "program": text, "error": il})
            continue
        ast = diff.parse_c(text)
        try:
            body = reader.parse_body(il)
        except reader.ReadError as e:
            ctx.failure("C05 after-failure: text unreadable", {"failing": bad, "program": text, "error": str(e)[:200]})
            continue
        for stt in diff.simple_states(operands_closure(ast, subs), 3, 31):
            r, _ = progcheck.judge_state(ast, body, stt, resolver, subs)
            if r is None:
                ctx.nontriv(("after-failure", bad, text, run.h64(stt)))
                continue
            if r[0] == "discard":
                ctx.discard(r[1])
                continue
            ctx.failure(f"C05 after-failure: {r[0]}", {"failing": bad, "program": text, "state": stt, "detail": r[1], "il": il})
            break


def run_check(ctx):
    ctx.rule = ("Hypothesis-generated statement sequences (nesting <= 3) x generated machine states; non-trivial = "
                "distinct program containing an if or a for loop that was judged on >= 2 states")
    ctx.assumptions = ["expressions restricted to the safe core (32/64 bit operands, comparisons only as conditions)"
                       " so that a failure is about statements, not about a listed expression-level finding",
                       "machine model: DESIGN.md section 4; C-undefined executions discarded"]
    progcheck.replay_known(ctx)
    progcheck.judge_shapes(ctx, "C05", FINDING_SHAPES)
    after_failure_part(ctx)
    n, ns = (16000, 8) if ctx.tier == "thorough" else (640, 6)
    progcheck.run_gen(ctx, "C05", FEATURES, n, ns, depth=2, nest=3, lo=2, hi=5,
                      nontrivial=_nontrivial, classify=_classify, native_all=(ctx.tier == "thorough"))
    # compound assignment table: every (target type, source type) pair for + - * / %; cells inside the class of the
    # listed signed->wider-unsigned conversion finding (C02/C03) are excluded by construction and counted
    from . import c03
    ctxs = ("compound_add", "compound_sub", "compound_mul", "compound_div", "compound_mod")
    allc = [(cx, ts, tt) for cx in ctxs for ts in c03.TYPES for tt in c03.TYPES]
    cells = [c_ for c_ in allc if not c03.classes_of(*c_)]
    ctx.exclude("compound-assignment cell inside the signed->wider-unsigned conversion class", len(allc) - len(cells))
    run.run_sharded(ctx, c03.table_worker, [(cells[i::16], ctx.tier, set(), "C05") for i in range(16)])
    for c in ("class:if", "class:for", "class:if-else", "class:compound-assign", "class:nested-for"):
        if ctx.classes.get(c, 0) == 0:
            raise run.HarnessError(f"generator produced no program of {c}")


def replay(rep):
    return progcheck.replay_program(rep)
