"""C02 - integer operators follow C11 promotion, common-type and operator semantics.

(1) exhaustive depth-1 table: every operator x left type x right type (8 integer types), unary operators and
    ?: arms, each compiled as `{ TL a = (TL)RssV; TR b = (TR)RttV; RddV = (int64_t)(a OP b); ... }` with observers
    for value, width (sizeof) and signedness (>> 1 of the result), executed on a boundary grid of operand values
    (thorough: all 256x256 values for the 8-bit x 8-bit cells);
(2) depth-2 operator pairs with sampled types; (3) Hypothesis expression trees up to depth 5.
Oracle: reference C evaluator vs RzIL interpreter.
"""
import itertools

from .. import boot, run, diff, gen, progcheck
from ..cref.ast import tname
from ..cref.eval import promote
from ..il import reader

TYPES = gen.INT_TYPES
BINOPS = ["+", "-", "*", "&", "|", "^", "<<", ">>", "<", ">", "<=", ">=", "==", "!=", "&&", "||"]
UNOPS = ["~", "-", "!"]

B64 = [0, 1, 2, 0x1F, 0x20, 0x3F, 0x40, 0x7F, 0x80, 0xFF, 0x100, 0x7FFF, 0x8000, 0xFFFF, 0x10000, 0x7FFFFFFF,
       0x80000000, 0xFFFFFFFF, 0x100000000, 0x7FFFFFFFFFFFFFFF, 0x8000000000000000, 0xFFFFFFFFFFFFFFFF,
       0x5555555555555555, 0xAAAAAAAAAAAAAAAA, 0xFFFFFFFFFFFFFF80, 0xFFFFFFFFFFFF8000, 0xFFFFFFFF80000000]


def tn(t):
    return tname(t)


def shift_rhs(tl, rhs="b"):
    return f"({rhs} & {promote(tl)[1] - 1})"


CMP = ("<", ">", "<=", ">=", "==", "!=")
LOGIC = ("&&", "||")


def result_type(op, tl, tr):
    from ..cref.eval import common, INT
    if op in CMP or op in LOGIC or op == "!":
        return INT
    if op in ("<<", ">>", "~", "-u"):
        return promote(tl)
    return common(tl, tr)


def cell_exprs(kind, op, tl, tr):
    """(declarations, expression text, inner-result type) of a cell"""
    a = f"{tn(tl)} a = ({tn(tl)})RssV;"
    b = f"{tn(tr)} b = ({tn(tr)})RttV;"
    if kind == "bin":
        rhs = shift_rhs(tl) if op in ("<<", ">>") else "b"
        return f"{a} {b}", f"(a {op} {rhs})"
    if kind == "un":
        return a, f"({op}a)"
    if kind == "cond":
        return f"{a} {b}", "((RuV != 0) ? a : b)"
    if kind == "bin2":
        op1, op2, tc = op
        r1 = shift_rhs(tl) if op1 in ("<<", ">>") else "b"
        ti = result_type(op1, tl, tr)
        r2 = shift_rhs(ti, "c") if op2 in ("<<", ">>") else "c"
        c = f"{tn(tc)} c = ({tn(tc)})RuuV;"
        return f"{a} {b} {c}", f"((a {op1} {r1}) {op2} {r2})"
    raise ValueError(kind)


def observers(kind, op):
    last = op if isinstance(op, str) else op[1]
    if last in CMP or last in LOGIC or last == "!":
        return ["value", "cond"]
    return ["value", "shr", "sizeof"]


def cell_program(kind, op, tl, tr, obs):
    decl, e = cell_exprs(kind, op, tl, tr)
    if obs == "value":
        return f"{{ {decl} RddV = (int64_t){e}; }}"
    if obs == "shr":
        return f"{{ {decl} RddV = (int64_t)({e} >> 1); }}"
    if obs == "sizeof":
        return f"{{ {decl} RddV = sizeof{e}; }}"
    if obs == "cond":
        return f"{{ {decl} if {e} {{ RddV = 1; }} else {{ RddV = 2; }} }}"
    raise ValueError(obs)


def _su(src, dst):
    return src[0] and not dst[0] and dst[1] > src[1]


def classes_of(kind, op, tl, tr, obs):
    """names of the listed-finding classes a table cell belongs to (predicates over the cell, not over results)"""
    from ..cref.eval import common
    out = set()

    def binop(o, x, y):
        if o in ("<<", ">>"):
            if x[1] < 32:
                out.add("shift-left-operand-not-promoted")
            return
        if o in LOGIC:
            return
        t = common(x, y)
        if o in CMP:
            if x[1] < 32 or y[1] < 32:
                out.add("comparison-operands-not-promoted")
            if _su(x, t) or _su(y, t):
                out.add("signed-to-wider-unsigned-zero-extends")
            return
        if _su(promote(x), t) or _su(promote(y), t):
            out.add("signed-to-wider-unsigned-zero-extends")

    if kind == "bin":
        binop(op, tl, tr)
        if op in LOGIC and obs != "cond":
            out.add("logical-result-used-as-value")
    elif kind == "un":
        if op == "!" and obs != "cond":
            out.add("logical-result-used-as-value")
    elif kind == "cond":
        t = common(tl, tr)
        if tl[1] < 32 or tr[1] < 32:
            out.add("conditional-arms-not-promoted")
        if _su(tl, t) or _su(tr, t):
            out.add("signed-to-wider-unsigned-zero-extends")
    elif kind == "bin2":
        op1, op2, tc = op
        binop(op1, tl, tr)
        ti = result_type(op1, tl, tr)
        if op1 in CMP or op1 in LOGIC:
            out.add("comparison-or-logical-result-used-as-operand")
        binop(op2, ti, tc)
        if op2 in LOGIC and obs != "cond":
            out.add("logical-result-used-as-value")
    return out


def grid_states(vals_s, vals_t, extra=None):
    out = []
    for s, t in itertools.product(vals_s, vals_t):
        regs = {"isa:s": {"w": 64, "old": s, "new": s}, "isa:t": {"w": 64, "old": t, "new": t},
                "isa:d": {"w": 64, "old": 0, "new": 0}, "isa:e": {"w": 32, "old": 0, "new": 0}, "isa:x": {"w": 64, "old": 0, "new": 0}}
        if extra:
            regs.update(extra)
        out.append({"regs": regs, "imms": {}, "pc": 0, "npc": 4, "slot": 0, "mem_seed": 0, "cs": 0})
    return out


def nontrivial_cell(kind, op, tl, tr, s, t):
    """an operand has its sign bit set (in its own type) or the two signed/unsigned readings differ"""
    ms = (s >> (tl[1] - 1)) & 1
    mt = (t >> (tr[1] - 1)) & 1
    return bool(ms or mt)


def table_worker(cells, tier, open_classes):
    p = run.Part()
    c = boot.compiler()
    resolver = diff.make_resolver(c)
    subs = diff.bundled_subs()
    for cell in cells:
        kind, op, tl, tr = cell
        opname = op if isinstance(op, str) else f"{op[0]} then {op[1]}({tn(op[2])})"
        base = f"{kind} a:{tn(tl)} {opname} b:{tn(tr)}" if kind != "un" else f"un {opname} a:{tn(tl)}"
        for obs in observers(kind, op):
            cellname = f"{base} obs={obs}"
            cls = classes_of(kind, op, tl, tr, obs) & open_classes   # only classes of findings that are still open
            if kind == "bin2" and cls & open_classes:
                # depth-2 cells inside the class of a listed finding are excluded by construction
                p.exclude("depth-2 cell in class " + "+".join(sorted(cls & open_classes)))
                continue
            text = cell_program(kind, op, tl, tr, obs)
            st, il = progcheck.try_compile(c, text)
            if st != "ok":
                p.count("cell:rejected")
                p.count("reject:" + il[:60])
                continue
            p.count("cell:compiled")
            try:
                body = reader.parse_body(il)
            except reader.ReadError as e:
                p.failure(f"C02 il-unreadable {cellname}", {"program": text, "error": str(e)})
                continue
            ast = diff.parse_c(text)
            extra = None
            if kind == "cond":
                extra = {"isa:u": {"w": 32, "old": 0, "new": 0}}
            if kind == "bin2":
                extra = {"isa:u": {"w": 64, "old": 0, "new": 0}}
            if tier == "thorough" and kind in ("bin", "un") and tl[1] == 8 and (kind == "un" or tr[1] == 8):
                states = grid_states(list(range(256)), list(range(256)) if kind == "bin" else [0])
                p.count("cell:exhaustive 8-bit")
            else:
                states = grid_states(B64, B64 if kind != "un" else [0], extra)
                if extra:
                    uw = extra["isa:u"]["w"]
                    for k_, s_ in enumerate(states):
                        v_ = B64[(k_ * 7 + k_ // 27) % len(B64)] & ((1 << uw) - 1)
                        s_["regs"] = dict(s_["regs"])
                        s_["regs"]["isa:u"] = {"w": uw, "old": v_, "new": v_}
            first = {}
            nfail = 0
            for stt in states:
                p.ev()
                r, _ = progcheck.judge_state(ast, body, stt, resolver, subs)
                s_, t_ = stt["regs"]["isa:s"]["old"], stt["regs"]["isa:t"]["old"]
                if r is None:
                    if nontrivial_cell(kind, op, tl, tr, s_, t_):
                        p.nontriv((cellname, s_ & 0xFFFF, t_ & 0xFFFF, s_ >> 60, t_ >> 60))
                    continue
                if r[0] == "discard":
                    p.discard(r[1])
                    continue
                nfail += 1
                if r[0] not in first:
                    first[r[0]] = (stt, r[1])
            for kind_, (stt, detail) in first.items():
                tag = "class=" + ("+".join(sorted(cls)) if cls else "none")
                p.failure(f"C02 table {tag} {kind_} {cellname}",
                          {"program": text, "state": stt, "kind": kind_, "detail": detail, "failing_states": nfail,
                           "classes": sorted(cls)})
            if len(p.d["samples"]) < 2:
                p.sample({"cell": cellname, "program": text, "states": len(states)})
    return p.d


def cells_for(tier, seed):
    cells = []
    for op in BINOPS:
        for tl in TYPES:
            for tr in TYPES:
                cells.append(("bin", op, tl, tr))
    for op in UNOPS:
        for tl in TYPES:
            cells.append(("un", op, tl, tl))
    for tl in TYPES:
        for tr in TYPES:
            cells.append(("cond", "?:", tl, tr))
    # depth 2: all operator pairs, types sampled so that every type pair occurs
    import random
    rng = random.Random(seed)
    pairs = list(itertools.product(BINOPS, BINOPS))
    tpairs = list(itertools.product(TYPES, TYPES))
    rng.shuffle(tpairs)
    reps = 3 if tier == "thorough" else 1
    k = 0
    for _ in range(reps):
        for op1, op2 in pairs:
            tl, tr = tpairs[k % len(tpairs)]
            tc = TYPES[(k * 5 + 3) % len(TYPES)]
            k += 1
            cells.append(("bin2", (op1, op2, tc), tl, tr))
    return cells


# explicit list (new generator features must not leak into this check unnoticed); the classes of listed findings
# (narrow_shift_left, cmp_narrow, cmp_value, widen_unsigned_from_signed, narrow_cond_arms, logical_mixed) are
# switched back on through the `features` of a finding whose witness stops failing
TREE_FEATURES = frozenset({"narrow", "shift", "logical", "cond", "cast", "unary", "if", "compound_assign", "imm", "pred"})


def run_check(ctx):
    ctx.rule = ("(1) exhaustive operator x left type x right type table (16 binary, 3 unary, ?:) and all depth-2 operator "
                "pairs, each on a 27x27 boundary grid of 64-bit source values truncated to the operand types (thorough: "
                "all 256x256 values for 8-bit cells); (2) Hypothesis expression trees; non-trivial = distinct (cell, "
                "operand values) where an operand has its sign bit set")
    ctx.assumptions = ["reference = C11 6.3.1 / 6.5 with int=32, long=64, -fwrapv, arithmetic >> (vlib/cref)",
                       "shift counts are masked to the promoted width of the left operand (C-undefined otherwise)"]
    enable = progcheck.replay_known(ctx)
    cells = cells_for(ctx.tier, ctx.seed)
    chunks = [cells[i::64] for i in range(64)]
    open_classes = set()
    for f in ctx.findings:
        if f.get("status") == "open" and f["id"] in ctx.known_hit:     # witness still fails
            open_classes |= set(f.get("cell_classes", []))
    run.run_sharded(ctx, table_worker, [(c, ctx.tier, open_classes) for c in chunks], procs=16)
    ctx.extra["table_cells"] = len(cells)
    n, ns = (12000, 12) if ctx.tier == "thorough" else (480, 8)
    progcheck.run_gen(ctx, "C02", TREE_FEATURES | enable, n, ns, depth=4, nest=0, lo=1, hi=3,
                      nontrivial=progcheck.judged_twice, native_all=(ctx.tier == "thorough"))


def replay(rep):
    return progcheck.replay_program(rep)
