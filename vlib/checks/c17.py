"""C17 - the grammar parses behaviours with C structure, deterministically.

(A) corpus differential: canon(Lark tree) == canon(reference precedence-climbing parse) for every behaviour the
    repository's parser accepts; (B) exhaustive tables: all operator pairs `x OP1 y OP2 z` (binary tower, assignment,
    ?:) in both nesting directions, unary/cast/parenthesis interactions, & vs &&, dangling else at depth 1..3,
    statement-expressions vs compound statements, operand look-alike tokens; (C) Hypothesis: generator ASTs printed
    with minimal parentheses, random redundant parentheses and whitespace must parse back to the same canonical
    tree; (D) determinism: the same texts parsed in fresh processes with PYTHONHASHSEED 0/1/2/12345, by a fresh and
    by a reused parser object, give identical trees.
"""
import itertools
import json
import os
import subprocess
import sys

from .. import boot, run, diff, gen, progcheck
from ..cref import parse_program, CParseError, show
from ..cref import canon

BINOPS = ["||", "&&", "|", "^", "&", "==", "!=", "<", ">", "<=", ">=", "<<", ">>", "+", "-", "*", "/", "%"]
ASSIGN = ["=", "+=", "-=", "*=", "/=", "%=", "<<=", ">>=", "&=", "^=", "|="]


def table_texts():
    out = []
    for a, b in itertools.product(BINOPS, BINOPS):
        out.append((f"pair {a} {b}", f"{{ RdV = RsV {a} RtV {b} RuV; }}"))
    for a in BINOPS:
        out.append((f"cond-left {a}", f"{{ RdV = RsV {a} RtV ? RuV : RvV; }}"))
        out.append((f"cond-right {a}", f"{{ RdV = RsV ? RtV : RuV {a} RvV; }}"))
        out.append((f"cond-mid {a}", f"{{ RdV = RsV ? RtV {a} RuV : RvV; }}"))
        out.append((f"unary-left {a}", f"{{ RdV = -RsV {a} RtV; }}"))
        out.append((f"unary-right {a}", f"{{ RdV = RsV {a} -RtV; }}"))
        out.append((f"not-right {a}", f"{{ RdV = RsV {a} !RtV; }}"))
        out.append((f"cast-left {a}", f"{{ RdV = (int8_t)RsV {a} RtV; }}"))
        out.append((f"cast-right {a}", f"{{ RdV = RsV {a} (uint16_t)RtV; }}"))
        out.append((f"nospace {a}", f"{{ RdV = RsV{a}RtV; }}"))
        out.append((f"nospace-num {a}", f"{{ RdV = 1{a}RtV; }}"))
        out.append((f"nospace-call {a}", f"{{ RdV = 1{a}clz32(RtV); }}"))
        out.append((f"paren {a}", f"{{ RdV = (RsV) {a} (RtV); }}"))
    for a in ASSIGN:
        out.append((f"assign {a}", f"{{ RxV {a} RsV + RtV; }}"))
        out.append((f"assign-cond {a}", f"{{ RxV {a} RsV ? RtV : RuV; }}"))
        out.append((f"assign-chain {a}", f"{{ RxV {a} RyV = RsV; }}"))
    extra = [
        ("cond-nest-right", "{ RdV = RsV ? RtV : RuV ? RvV : RwV; }"), ("cond-nest-mid", "{ RdV = RsV ? RtV ? RuV : RvV : RwV; }"),
        ("cast-unary", "{ RdV = (int8_t)-RsV; }"), ("cast-not", "{ RdV = (int32_t)!RsV; }"), ("cast-tilde", "{ RdV = (uint8_t)~RsV; }"),
        ("cast-plus", "{ RdV = (int16_t)+RsV; }"), ("cast-cast", "{ RdV = (int64_t)(int8_t)RsV; }"), ("unary-cast", "{ RdV = -(int8_t)RsV; }"),
        ("paren-minus", "{ RdV = (RsV)-RtV; }"), ("paren-minus-unary", "{ RdV = (RsV) - -RtV; }"), ("minus-minus", "{ RdV = RsV - -RtV; }"),
        ("plus-minus", "{ RdV = RsV + -RtV; }"), ("not-not", "{ RdV = !!RsV; }"), ("neg-tilde", "{ RdV = -~RsV; }"),
        ("cast-paren", "{ RdV = (int32_t)(RsV)-RtV; }"),
        # keyword type names are spelled like identifiers too
        ("cast-int-unary", "{ RdV = (int) -RsV; }"), ("cast-int-unary-mul", "{ RdV = (int) -RsV * RtV; }"),
        ("cast-unsigned-unary", "{ RdV = (unsigned) -RsV; }"), ("cast-unsigned-int-unary", "{ RdV = (unsigned int) -RsV; }"),
        ("cast-int-plus", "{ RdV = (int) +RsV; }"), ("minus-cast-int-unary", "{ RdV = RtV - (int) -RsV; }"),
        ("cast-size-unary", "{ RdV = (size4s_t) -RsV; }"), ("cast-size-u-unary", "{ RddV = (size8u_t) -1; }"),
        ("cast-int-not", "{ RdV = (int) !RsV; }"), ("cast-int-tilde", "{ RdV = (int) ~RsV; }"),
        ("minus-cast-unary", "{ RdV = RsV - (int32_t)-RtV; }"), ("paren-minus-cast-unary", "{ RdV = (RsV) - (int32_t)-RtV; }"),
        ("plus-cast-plus", "{ RdV = RsV + (int8_t)+RtV; }"), ("mul-cast-unary", "{ RdV = RsV * (int32_t)-RtV; }"),
        ("minus-cast-not", "{ RdV = RsV - (int32_t)~RtV; }"), ("cast-unsigned-int", "{ RdV = (unsigned int)RsV + 1; }"),
        ("cast-int", "{ RdV = (int)RsV * 2; }"), ("sizeof", "{ RdV = sizeof(RsV) + 1; }"),
        ("and-andand", "{ RdV = RsV & RtV && RuV; }"), ("andand-and", "{ RdV = RsV && RtV & RuV; }"),
        ("and-andand-tight", "{ RdV = RsV&RtV&&RuV; }"), ("andand-tight", "{ RdV = RsV&&RtV; }"), ("and-tight-paren", "{ RdV = (RsV)&(RtV); }"),
        ("postfix-plus", "{ RdV = RxV++ + RtV; }"), ("postfix-minus", "{ RdV = RxV-- - RtV; }"),
        ("else-depth1", "{ if (RsV) RdV = 1; else RdV = 2; }"),
        ("else-depth2", "{ if (RsV) if (RtV) RdV = 1; else RdV = 2; }"),
        ("else-depth3", "{ if (RsV) if (RtV) if (RuV) RdV = 1; else RdV = 2; }"),
        ("else-depth2-both", "{ if (RsV) if (RtV) RdV = 1; else RdV = 2; else RdV = 3; }"),
        ("else-braced", "{ if (RsV) { if (RtV) RdV = 1; } else RdV = 2; }"),
        ("else-if-chain", "{ if (RsV) RdV = 1; else if (RtV) RdV = 2; else RdV = 3; }"),
        ("for-nobrace", "{ for (i = 0; i < 4; i++) RxV += i; RdV = 1; }"),
        ("stmtexpr", "{ RdV = ({ int32_t t = RsV; t; }); }"), ("stmtexpr-cond", "{ RdV = RsV ? ({ RxV = 1; 5; }) : 6; }"),
        ("compound", "{ { RdV = RsV; } ReV = 1; }"), ("compound-semicolon", "{ { RdV = RsV; }; ReV = 1; }"),
        ("empty-stmts", "{ ; ; RdV = 1; ; }"), ("nested-empty", "{ { } { ; } RdV = 1; }"),
        ("call-args", "{ RdV = extract32(RsV, 1 + 2, RtV ? 3 : 4); }"), ("load-expr", "{ RdV = (int32_t)mem_load_s32(RsV + siV * 2); }"),
        ("store-expr", "{ mem_store_u16(RsV + 2, RtV & 0xffff); }"), ("jump-expr", "{ JUMP(HEX_REG_ALIAS_PC + riV); }"),
        ("return-expr", "{ return RsV + 1; }"), ("decl-const", "{ const int32_t a = 1; RdV = a; }"),
        ("decl-unsigned", "{ unsigned int a = RsV; RdV = a; }"), ("decl-size", "{ size4u_t a = RsV; size8s_t b = RssV; }"),
    ]
    idents = ["tmpV", "RsVal", "siVx", "N", "V", "RsN1", "P0x", "xRsV", "R31", "R3", "P0", "P3_NEW", "R1:0", "C9:8",
              "HEX_REG_ALIAS_SP", "HEX_REG_ALIAS_SP_NEW", "HEX_REG_ALIAS_UPCYCLE", "uiV", "UiV", "miV", "niV", "riV", "RsV",
              "RssV", "RsN", "PuN", "NsN", "MuV", "CsV", "EA", "i", "ifx", "forx", "returned", "int32_tx", "mem_load_x",
              "JUMPx", "sizeofx", "elsewhere", "cancel_slot_x", "RdV1"]
    for t in idents:
        extra.append((f"token {t}", f"{{ RddV = {t} + 1; }}"))
    return out + extra


def classify_diff(text, d):
    if d is None:
        return None
    if "&" in d.replace("&&", ""):
        return "ampersand-ptr-terminal"
    import re as _re
    if _re.search(r"\('id', '(u?int\d+_t|size\d[su]_t|int|unsigned)'\)", d):
        return "type-name-parsed-as-identifier"
    if "'id' vs 'call'" in d:
        return "argumentless-call"
    return "structure"


def compare_text(parser, text):
    """-> ('lark-reject'|'ref-reject'|'same'|'diff', detail)"""
    try:
        tree = parser.parse(text)
    except Exception as e:
        return "lark-reject", type(e).__name__
    try:
        ast = parse_program(text)
    except CParseError as e:
        return "ref-reject", str(e)[:80]
    a, b = canon.canon_lark(tree), canon.canon_ast(ast)
    if a == b:
        return "same", None
    return "diff", canon.first_difference(a, b)


def corpus_worker(names):
    p = run.Part()
    c = boot.new_compiler()
    for n in names:
        for pi, t in enumerate(boot.corpus()[n]):
            p.ev()
            r, d = compare_text(c.parser, t)
            p.count("corpus:" + r)
            if r == "same" and sum(t.count(o) for o in ("+", "*", "<<", "?", "&", "else")) >= 2:
                p.nontriv((n, pi))
            if r == "diff":
                if "float_number" in d or "0.0" in d:
                    p.count("corpus:float literal (unmodelled)")
                    continue
                p.failure(f"C17 corpus {classify_diff(t, d)} {n}[{pi}]", {"insn": f"{n}[{pi}]", "text": t[:300], "difference": d[:400]})
    return p.d


def table_worker(items):
    p = run.Part()
    c = boot.new_compiler()
    for name, text in items:
        p.ev()
        r, d = compare_text(c.parser, text)
        p.count("table:" + r)
        p.nontriv(("table", name))
        if r == "diff":
            cls = classify_diff(text, d)
            tag = name if cls == "structure" else f"{cls} {name}"
            p.failure(f"C17 table {tag}", {"text": text, "difference": d[:400]})
        elif r == "ref-reject":
            raise run.HarnessError(f"reference parser rejects table text {text!r}: {d}")
        if len(p.d["samples"]) < 2:
            p.sample({"text": text, "result": r})
    return p.d


def add_parens(draw, e, st):
    """randomly wrap sub-expressions in redundant parentheses"""
    if not isinstance(e, tuple) or not e:
        return e
    k = e[0]
    if k in ("num", "opnd", "var"):
        return ("paren", e) if draw(st.integers(0, 9)) == 0 else e
    if k in ("un",):
        out = (k, e[1], add_parens(draw, e[2], st))
    elif k == "bin":
        out = (k, e[1], add_parens(draw, e[2], st), add_parens(draw, e[3], st))
    elif k == "cast":
        out = (k, e[1], add_parens(draw, e[2], st))
    elif k == "cond":
        out = (k, add_parens(draw, e[1], st), add_parens(draw, e[2], st), add_parens(draw, e[3], st))
    elif k == "assign":
        out = (k, e[1], e[2], add_parens(draw, e[3], st))
    elif k == "load":
        out = (k, e[1], e[2], add_parens(draw, e[3], st))
    elif k == "call":
        out = (k, e[1], [add_parens(draw, a, st) for a in e[2]])
    else:
        return e
    return ("paren", out) if draw(st.integers(0, 5)) == 0 else out


def paren_stmts(draw, stmts, st):
    out = []
    for s in stmts:
        k = s[0]
        if k == "decl" and s[3] is not None:
            out.append((k, s[1], s[2], add_parens(draw, s[3], st), s[4]))
        elif k == "expr":
            out.append((k, add_parens(draw, s[1], st)))
        elif k == "block":
            out.append((k, paren_stmts(draw, s[1], st)))
        elif k == "if":
            out.append((k, add_parens(draw, s[1], st), paren_stmts(draw, [s[2]], st)[0],
                        None if s[3] is None else paren_stmts(draw, [s[3]], st)[0]))
        elif k == "for":
            out.append((k, s[1], s[2], s[3], paren_stmts(draw, [s[4]], st)[0]))
        elif k == "store":
            out.append((k, s[1], s[2], add_parens(draw, s[3], st), add_parens(draw, s[4], st)))
        elif k == "jump":
            out.append((k, add_parens(draw, s[1], st)))
        else:
            out.append(s)
    return out


FEATURES = frozenset({"narrow", "shift", "logical", "cond", "cast", "unary", "if", "loop", "compound_assign", "imm", "pred",
                      "mem", "jump", "alias", "explicit", "new", "cmp_value", "logical_mixed", "narrow_shift_left", "cmp_narrow",
                      "widen_unsigned_from_signed", "div", "hyb_inc", "hyb_call", "hyb_stmtexpr", "suffix_literal", "cmp_init"})


def hyp_worker(n, seed):
    import hypothesis
    from hypothesis import given, settings, Phase, strategies as st
    p = run.Part()
    c = boot.new_compiler()

    @hypothesis.seed(seed)
    @settings(max_examples=n, database=None, deadline=None, phases=[Phase.generate],
              suppress_health_check=list(hypothesis.HealthCheck))
    @given(gen.program(FEATURES, depth=3, nest=2, lo=1, hi=3), st.data())
    def prop(pe, data):
        stmts, env = pe
        stmts = paren_stmts(data.draw, stmts, st)
        text = show.program(stmts, full=False)
        ws = data.draw(st.sampled_from([" ", "  ", " \t ", "\n "]))
        text = text.replace(" ", ws) if data.draw(st.booleans()) else text
        if len(text) > 420:
            return
        p.ev()
        want = canon.canon_ast(stmts)
        try:
            tree = c.parser.parse(text)
        except Exception as e:
            p.failure(f"C17 generated text rejected by the grammar ({type(e).__name__})", {"text": text})
            return
        got = canon.canon_lark(tree)
        try:
            ref = canon.canon_ast(parse_program(text))
        except CParseError as e:
            raise run.HarnessError(f"reference parser rejects generated text {text!r}: {e}")
        if ref != want:
            raise run.HarnessError(f"reference parser disagrees with the generator AST on {text!r}: "
                                   f"{canon.first_difference(ref, want)}")
        ops = sum(text.count(o) for o in ("+", "*", "<<", ">>", "?", "&", "|", "else", "<", "=="))
        if ops >= 2:
            p.nontriv(text)
        if got != want:
            d = canon.first_difference(got, want)
            p.failure(f"C17 generated {classify_diff(text, d)}", {"text": text, "difference": d[:400]})
        p.sample({"text": text[:200]}, cap=3)

    prop()
    return p.d


DET_SCRIPT = r'''
import sys, json, hashlib
sys.path.insert(0, sys.argv[1])
from vlib import boot
boot.boot()
texts = json.load(open(sys.argv[2]))
mode = sys.argv[3]
from rzilcompiler.Parser import parse_single, InsnParsingBundle
from rzilcompiler.Configuration import Conf, InputFile
c = boot.new_compiler()
grammar = open(Conf.get_path(InputFile.GRAMMAR, "Hexagon")).read()
out = {}
if mode == "reused":
    for t in texts[::-1]:
        try: c.parser.parse(t)
        except Exception: pass
for i, t in enumerate(texts):
    try:
        a = c.parser.parse(t).pretty()
    except Exception as e:
        a = "EXC " + type(e).__name__
    r = parse_single(InsnParsingBundle(grammar, "n", [t]))["n"]
    b = r.asts[0].pretty() if r.asts else "EXC " + r.exception.name
    out[str(i)] = [hashlib.sha1(a.encode()).hexdigest(), hashlib.sha1(b.encode()).hexdigest()]
print(json.dumps(out))
'''


def determinism(ctx, texts):
    import tempfile
    d = tempfile.mkdtemp(prefix="c17_")
    try:
        tf = os.path.join(d, "texts.json")
        sf = os.path.join(d, "det.py")
        json.dump(texts, open(tf, "w"))
        open(sf, "w").write(DET_SCRIPT)
        procs = []
        for hs, mode in (("0", "fresh"), ("1", "fresh"), ("2", "reused"), ("12345", "fresh"), ("777", "reused")):
            env = dict(os.environ, PYTHONHASHSEED=hs, VERIF_REPO_DIR=boot.REPO_DIR)
            procs.append((hs, mode, subprocess.Popen(["/venv/bin/python", sf, boot.VERIF_DIR, tf, mode], env=env,
                                                     stdout=subprocess.PIPE, stderr=subprocess.DEVNULL, cwd=boot.REPO_DIR)))
        results = []
        for hs, mode, pr in procs:
            out, _ = pr.communicate(timeout=900)
            try:
                results.append((hs, mode, json.loads(out.decode().strip().splitlines()[-1])))
            except Exception:
                raise run.HarnessError(f"determinism sub-process (hash seed {hs}) produced no result")
        base = results[0][2]
        for i, t in enumerate(texts):
            ctx.evaluations += 1
            ctx.nontriv(("det", t))
            for hs, mode, r in results:
                if r[str(i)] != base[str(i)] or r[str(i)][0] != r[str(i)][1]:
                    ctx.failure(f"C17 tree depends on hash seed / parser reuse / entry point",
                                {"text": t, "hash_seed": hs, "mode": mode, "digests": r[str(i)], "baseline": base[str(i)]})
                    break
    finally:
        import shutil
        shutil.rmtree(d, ignore_errors=True)


# texts that differ only in white space but not in their tokens (second member: the glued spelling)
TWINS = [("{ RdV = - -RsV; }", "{ RdV = --RsV; }"), ("{ RdV = + +RsV; }", "{ RdV = ++RsV; }"),
         ("{ RdV = RxV++ + RtV; }", "{ RdV = RxV + ++RtV; }"), ("{ RdV = RxV-- - RtV; }", "{ RdV = RxV - --RtV; }"),
         ("{ RdV = RsV ? P0 : 1; }", "{ RdV = RsV ? P0:1; }"), ("{ RdV = RsV > > 1; }", "{ RdV = RsV >> 1; }"),
         ("{ RdV = RsV < < 1; }", "{ RdV = RsV << 1; }"), ("{ RdV = RsV & & RtV; }", "{ RdV = RsV && RtV; }"),
         ("{ RdV = RsV | | RtV; }", "{ RdV = RsV || RtV; }"), ("{ RxV + = 1; }", "{ RxV += 1; }"), ("{ RdV = RsV = = RtV; }", "{ RdV = RsV == RtV; }"),
         ("{ RdV = RsV ! = RtV; }", "{ RdV = RsV != RtV; }"), ("{ RdV = RsV < = RtV; }", "{ RdV = RsV <= RtV; }"),
         ("{ RxV << = 1; }", "{ RxV <<= 1; }"), ("{ RdV = 1 0; }", "{ RdV = 10; }"), ("{ RdV = 0 x10; }", "{ RdV = 0x10; }"),
         ("{ R dV = 1; }", "{ RdV = 1; }"), ("{ RdV = 1 U; }", "{ RdV = 1U; }"), ("{ RdV = RsV - - 1; }", "{ RdV = RsV -- 1; }"),
         ("{ int32_t x = 1; RdV = x; }", "{ int32_tx = 1; RdV = x; }"), ("{ RdV = RsV; ReV = 1; }", "{ RdV = RsV;ReV=1; }"),
         ("{ if (RsV) RdV = 1; else RdV = 2; }", "{ if(RsV)RdV=1;else RdV=2; }"), ("{ RdV = sizeof (RsV); }", "{ RdV = sizeof(RsV); }")]


def twins_worker(pairs):
    """(E) the public Compiler entry point: whatever a Compiler object compiled before, a text yields what a brand-new
    Compiler yields for it - in particular for texts that only differ in white space from an earlier one"""
    from .c14 import normalise
    p = run.Part()

    def result(c, t):
        st, il = progcheck.try_compile(c, t)
        return (st, normalise(il)) if st == "ok" else (st, il.split(":")[0])

    for a, b in pairs:
        base = {t: result(boot.new_compiler(), t) for t in (a, b)}
        for order in ((a, b), (b, a)):
            c = boot.new_compiler()
            for t in order:
                p.ev()
                got = result(c, t)
                p.nontriv(("twin", order, t))
                if got != base[t]:
                    p.failure("C17 result depends on a white-space twin compiled before on the same Compiler",
                              {"text": t, "compiled_before": order[0], "got": got, "fresh_compiler": base[t]})
        p.count("twins:" + ("same result" if base[a] == base[b] else "different tokens"))
    return p.d


def run_check(ctx):
    ctx.rule = ("(A) corpus behaviours (thorough: all; quick: 200 stratified) (B) table of operator pairs/casts/else/look-alike tokens "
                "(C) Hypothesis ASTs printed with minimal + redundant parentheses and varied whitespace (D) 5 processes with different "
                "PYTHONHASHSEED, fresh vs reused parser, Compiler.parser vs Parser.parse_single; non-trivial = distinct text with >= 2 "
                "operators of the tower or an else")
    ctx.assumptions = ["canonical form drops parentheses, nested block braces and empty statements on both sides",
                       "reference parser = precedence climbing written from C11 6.5; float literals are not modelled"]
    for f in ctx.findings:
        if f.get("status") == "open" and "text" in f.get("witness", {}):
            ok, msg = replay(f["witness"])
            ctx.evaluations += 1
            if not ok:
                ctx.known_hit[f["id"]] = f
    names = sorted(boot.corpus())
    sel = names if ctx.tier == "thorough" else diff.stratified_sample(names, 200, ctx.seed)
    wit = [f["witness"]["insn"].split("[")[0] for f in ctx.findings if f.get("status") == "open" and "insn" in f.get("witness", {})]
    sel = [w for w in wit if w not in sel] + sel
    run.run_sharded(ctx, corpus_worker, [(sel[i::32],) for i in range(32)], procs=16)
    tab = table_texts()
    ctx.extra["table_texts"] = len(tab)
    run.run_sharded(ctx, table_worker, [(tab[i::16],) for i in range(16)], procs=16)
    n = 20000 if ctx.tier == "thorough" else 800
    run.run_sharded(ctx, hyp_worker, [(n // 16, run.sub_seed(ctx.seed, "c17", i)) for i in range(16)])
    det = [t for _, t in tab[:: (6 if ctx.tier == "thorough" else 24)]] + \
          ["{ RdV = RxV+++RtV; }", "{ RdV = RxV---RtV; }", "{ { RdV = 1; }; ; { ReV = 2; } ; }",
           "{ if (RsV) if (RtV) RdV = 1; else RdV = 2; }", "{ RdV = RsV&RtV&&RuV; }"]
    det += [boot.corpus()[n_][0] for n_ in sel[:12] if len(boot.corpus()[n_][0]) < 300]
    determinism(ctx, det)
    run.run_sharded(ctx, twins_worker, [(TWINS[i::12],) for i in range(12)], procs=12)


def replay(rep):
    c = boot.new_compiler()
    t = rep.get("text")
    r, d = compare_text(c.parser, t)
    return (r != "diff"), f"replay: {r} {d}"
