"""C06 - value-producing side effects happen exactly once, in order, only when selected.

Generated programs place postfix ++/--, calls to bundled sub-routines and GCC statement-expressions in
initialisers, assignments, if conditions, loop steps, call arguments, store operands (and, where the class is not
a listed finding, ?: arms and value-unused expression statements); reference C evaluator vs RzIL interpreter on
generated states. A read of a temporary (h_tmpN / ret_val) that was never written on the executed path is an error.
"""
from .. import run, gen, progcheck
from ..cref import walk

BASE = gen.SAFE_CORE | {"hyb_inc", "hyb_call", "hyb_stmtexpr", "pred", "unbraced"}
# classes of listed findings (generated again when the witness stops failing)
OPTIONAL = {"hyb_unused_stmt", "hyb_in_cond_arm"}


def _hybrids(stmts):
    n = 0
    for x in walk(stmts):
        if x and x[0] in ("post", "call", "stmtexpr"):
            n += 1
    return n


def _nontrivial(stmts, judged):
    return _hybrids(stmts) >= 1 and judged >= 1


def _classify(stmts):
    out = []
    kinds = {x[0] for x in walk(stmts) if x and isinstance(x[0], str)}
    for k in ("post", "call", "stmtexpr"):
        if k in kinds:
            out.append("hybrid:" + k)
    n = _hybrids(stmts)
    out.append(f"hybrids per program:{min(n, 4)}")
    for x in walk(stmts):
        if x and x[0] == "if" and any(y and y[0] in ("post", "call", "stmtexpr") for y in walk(x[1])):
            out.append("hybrid in if-condition")
        if x and x[0] == "store" and any(y and y[0] in ("post", "call", "stmtexpr") for y in walk(x[4])):
            out.append("hybrid in store operand")
        if x and x[0] == "call" and any(y and y[0] in ("post", "call", "stmtexpr") for y in walk(x[2])):
            out.append("hybrid in call argument")
        if x and x[0] == "for" and x[3] is not None and x[3][0] == "post":
            out.append("hybrid as loop step")
        if x and x[0] == "for" and x[4][0] == "expr" and x[4][1][0] in ("post", "stmtexpr", "call"):
            out.append("unbraced hybrid statement as loop body")
        if x and x[0] == "if" and any(a is not None and a[0] == "expr" and a[1][0] in ("post", "stmtexpr", "call") for a in x[2:4]):
            out.append("unbraced hybrid statement as if/else arm")
    return set(out)


def run_check(ctx):
    ctx.rule = ("Hypothesis programs with 0..4 hybrids (postfix ++/--, sub-routine calls, statement-expressions) in initialisers, "
                "assignments, if conditions, loop steps, call arguments, store operands x generated states; non-trivial = distinct "
                "program with >= 1 hybrid that was judged")
    ctx.assumptions = ["full expressions never modify and read the same variable unsequenced (C leaves that undefined)",
                       "listed finding classes (value-unused hybrid statements, hybrids inside ?: arms) are excluded by construction"]
    enable = progcheck.replay_known(ctx)
    n, ns = (12000, 8) if ctx.tier == "thorough" else (560, 5)
    progcheck.run_gen(ctx, "C06", BASE | enable, n, ns, depth=2, nest=2, lo=1, hi=4,
                      nontrivial=_nontrivial, classify=_classify, native_all=(ctx.tier == "thorough"))
    for c in ("class:hybrid:post", "class:hybrid:call", "class:hybrid:stmtexpr", "class:hybrid in if-condition",
              "class:hybrid as loop step"):
        if ctx.classes.get(c, 0) == 0:
            raise run.HarnessError(f"generator produced no program of {c}")


def replay(rep):
    return progcheck.replay_program(rep)
