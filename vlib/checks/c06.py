"""C06 - value-producing side effects happen exactly once, in order, only when selected.

Generated programs place postfix ++/--, calls to bundled sub-routines and GCC statement-expressions in
initialisers, assignments, if conditions, loop steps, call arguments, store operands (and, where the class is not
a listed finding, ?: arms and value-unused expression statements); reference C evaluator vs RzIL interpreter on
generated states. A read of a temporary (h_tmpN / ret_val) that was never written on the executed path is an error.
"""
from .. import run, gen, progcheck
from ..cref import walk

BASE = gen.SAFE_CORE | {"hyb_inc", "hyb_call", "hyb_stmtexpr", "pred", "unbraced"}
# classes of listed findings (generated again when the witness stops failing)
OPTIONAL = {"hyb_unused_stmt", "hyb_in_cond_arm"}


def _hybrids(stmts):
    n = 0
    for x in walk(stmts):
        if x and x[0] in ("post", "call", "stmtexpr"):
            n += 1
    return n


def _nontrivial(stmts, judged):
    return _hybrids(stmts) >= 1 and judged >= 1


def _classify(stmts):
    out = []
    kinds = {x[0] for x in walk(stmts) if x and isinstance(x[0], str)}
    for k in ("post", "call", "stmtexpr"):
        if k in kinds:
            out.append("hybrid:" + k)
    n = _hybrids(stmts)
    out.append(f"hybrids per program:{min(n, 4)}")
    for x in walk(stmts):
        if x and x[0] == "if" and any(y and y[0] in ("post", "call", "stmtexpr") for y in walk(x[1])):
            out.append("hybrid in if-condition")
        if x and x[0] == "store" and any(y and y[0] in ("post", "call", "stmtexpr") for y in walk(x[4])):
            out.append("hybrid in store operand")
        if x and x[0] == "call" and any(y and y[0] in ("post", "call", "stmtexpr") for y in walk(x[2])):
            out.append("hybrid in call argument")
        if x and x[0] == "for" and x[3] is not None and x[3][0] == "post":
            out.append("hybrid as loop step")
        if x and x[0] == "for" and x[4][0] == "expr" and x[4][1][0] in ("post", "stmtexpr", "call"):
            out.append("unbraced hybrid statement as loop body")
        if x and x[0] == "if" and any(a is not None and a[0] == "expr" and a[1][0] in ("post", "stmtexpr", "call") for a in x[2:4]):
            out.append("unbraced hybrid statement as if/else arm")
    return set(out)


# constant-condition ?: whose arms are value-producing operations, followed by another one in the same expression:
# the discarded arm must vanish without disturbing the temporaries of the operations that stay
_DECL = "int32_t i = RsV; int32_t j = RtV; int32_t k = RuV;"
_OBS = "ReV = i + (j << 8); RxV = k;"
CONST_ARM_TEMPLATES = [f"{{ {_DECL} RdV = ({c} ? {a} : {b}) + {t}; {_OBS} }}"
                       for c in ("(0 == 1)", "(1 == 1)", "0", "1", "(2 < 1)", "(3 > 2)")
                       for a, b in (("i++", "j++"), ("clz32(i)", "clo32(j)"), ("i--", "clz32(j)"), ("i++", "7"), ("5", "j--"))
                       for t in ("k++", "clz32(k)", "k-- + i++", "(k++ + j++)")] + \
                      [f"{{ {_DECL} RdV = {t} + ({c} ? {a} : {b}); {_OBS} }}"
                       for c in ("(0 == 1)", "1") for a, b in (("i++", "j++"), ("clz32(i)", "j++")) for t in ("k++", "clz32(k)")] + \
                      [f"{{ {_DECL} RdV = ({c} ? i++ : j++) + ({c2} ? j++ : k++) + i++; {_OBS} }}"
                       for c in ("0", "1") for c2 in ("0", "1")]


# a void sub-routine call whose argument is a value-producing operation: the operation runs at the call
CONST_ARM_TEMPLATES += ["{ uint32_t t = RsV | 1; set_usr_field(bundle, HEX_REG_FIELD_USR_OVF, clz32(t) & 1); RdV = t; }",
                        "{ int32_t k = RsV; set_usr_field(bundle, HEX_REG_FIELD_USR_OVF, k++ & 1); RdV = k; }",
                        "{ int32_t k = RsV; if (RtV) { k = k + 2; set_usr_field(bundle, HEX_REG_FIELD_USR_OVF, clz32(k) & 1); } RdV = k; }",
                        "{ int32_t k = RsV; for (i = 0; i < 2; i++) { set_usr_field(bundle, HEX_REG_FIELD_USR_OVF, k++ & 1); } RdV = k; }"]


def template_worker(texts):
    from .. import boot, diff
    from ..cref import operands_closure
    from ..il import reader
    p = run.Part()
    c = boot.compiler()
    resolver = diff.make_resolver(c)
    subs = diff.bundled_subs()
    for text in texts:
        p.ev()
        st, il = progcheck.try_compile(c, text)
        if st != "ok":
            p.count("template:rejected")
            continue
        p.count("template:accepted")
        try:
            ast = diff.parse_c(text)
            body = reader.parse_body(il)
        except Exception as e:
            p.failure("C06 template il-unreadable", {"program": text, "error": str(e)[:200]})
            continue
        for stt in diff.simple_states(operands_closure(ast, subs), 4, 11):
            r, _ = progcheck.judge_state(ast, body, stt, resolver, subs)
            if r is None:
                p.nontriv(("template", text, run.h64(stt)))
                continue
            if r[0] == "discard":
                p.discard(r[1])
                continue
            p.failure(f"C06 template {r[0]}", {"program": text, "state": stt, "kind": r[0], "detail": r[1], "il": il})
            break
    return p.d


SWEEP_PROGRAMS = ["{ int32_t i = RsV; RdV = (i++ > 0) ? clz32(i) : 6; ReV = i; }",
                  "{ int32_t i = RsV; RdV = ((i++ > 0) && (clz32(i) > 3)); ReV = i; }",
                  "{ int32_t i = RsV; int32_t j = 1; if (i-- > 2) { j = clo32(i); } RdV = j + clz32(i++); ReV = i; }"]


def sweep_worker(k, rounds, offset=0):
    """temporary numbering is never reset on a Compiler: the same programs are compiled again and again on one fresh
    compiler so that their pending operations get every number 0 .. ~3*rounds (9|10, 99|100 boundaries included)"""
    from .. import boot, diff
    from ..cref import operands_closure
    from ..il import reader
    p = run.Part()
    c = boot.new_compiler()
    resolver = diff.make_resolver(c)
    subs = diff.bundled_subs()
    text = SWEEP_PROGRAMS[k]
    for _ in range(offset):
        progcheck.try_compile(c, "{ RdV = clz32(RsV); }")    # shifts the numbering by one
    ast = diff.parse_c(text)
    states = diff.simple_states(operands_closure(ast, subs), 4, 23)
    for r_ in range(rounds):
        p.ev()
        st, il = progcheck.try_compile(c, text)
        if st != "ok":
            p.failure("C06 numbering sweep: compilation raises", {"program": text, "round": r_, "error": il})
            break
        nums = sorted({int(x) for x in __import__("re").findall(r"h_tmp(\d+)", il)})
        body = reader.parse_body(il)
        for stt in states:
            r, _ = progcheck.judge_state(ast, body, stt, resolver, subs)
            if r is None:
                p.nontriv(("sweep", k, r_, run.h64(stt)))
                continue
            if r[0] == "discard":
                p.discard(r[1])
                continue
            p.failure(f"C06 numbering sweep {r[0]}", {"program": text, "round": r_, "temporaries": nums, "state": stt, "detail": r[1], "il": il})
            return p.d
    return p.d


# shapes of listed findings (see known_findings.json); judged every run, matched by signature prefix
FINDING_SHAPES = {
    "short-circuit": ["{ int32_t k = 0; if (RsV && k++) { RdV = 1; } RxV = k; }", "{ int32_t k = 0; if (RsV || k++) { RdV = 1; } RxV = k; }",
                      "{ int32_t i = RsV; RdV = ((i > 100) && (i++ > 3)); ReV = i; }"],
    "hybrid-in-for-condition": ["{ int32_t i = RsV; int32_t x = 0; for (i = 0; i++ < 3; x = x) { x = x + i; } RdV = x; }"],
    "composite-unused-expression-statement": ["{ int32_t i = RsV; int32_t j = 1; i++ + j++; RdV = i + j; }",
                                              "{ int32_t i = RsV; -i++; RdV = i; }"],
    "statement-expression-value-is-hybrid": ["{ int32_t i = RsV; int32_t a = ({ i = 3; i++; }); RdV = a * 100 + i; }"],
}


def run_check(ctx):
    ctx.rule = ("Hypothesis programs with 0..4 hybrids (postfix ++/--, sub-routine calls, statement-expressions) in initialisers, "
                "assignments, if conditions, loop steps, call arguments, store operands x generated states; non-trivial = distinct "
                "program with >= 1 hybrid that was judged")
    ctx.assumptions = ["full expressions never modify and read the same variable unsequenced (C leaves that undefined)",
                       "listed finding classes (value-unused hybrid statements, hybrids inside ?: arms) are excluded by construction"]
    enable = progcheck.replay_known(ctx)
    n, ns = (12000, 8) if ctx.tier == "thorough" else (560, 5)
    progcheck.run_gen(ctx, "C06", BASE | enable, n, ns, depth=2, nest=2, lo=1, hi=4,
                      nontrivial=_nontrivial, classify=_classify, native_all=(ctx.tier == "thorough"))
    progcheck.judge_shapes(ctx, "C06", FINDING_SHAPES)
    rounds = 400 if ctx.tier == "thorough" else 60
    run.run_sharded(ctx, sweep_worker, [(k, rounds, off) for k in range(len(SWEEP_PROGRAMS)) for off in (0, 1, 2)], procs=9)
    ctx.extra["const_arm_templates"] = len(CONST_ARM_TEMPLATES)
    run.run_sharded(ctx, template_worker, [(CONST_ARM_TEMPLATES[i::16],) for i in range(16)])
    for c in ("class:hybrid:post", "class:hybrid:call", "class:hybrid:stmtexpr", "class:hybrid in if-condition",
              "class:hybrid as loop step"):
        if ctx.classes.get(c, 0) == 0:
            raise run.HarnessError(f"generator produced no program of {c}")


def replay(rep):
    return progcheck.replay_program(rep)
