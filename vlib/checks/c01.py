"""C01 - shipped instruction behaviours are translated faithfully end to end.

For every corpus part the compiler accepts: execute the C text with the reference evaluator (cref) and the
emitted RzIL with the interpreter on Hypothesis-generated machine states; compare register writes, memory
writes, jump record and slot-cancel state. Acceptance side: accepted parts must not contain constructs the
dialect does not support (silently approximated), no-op-listed names yield `return NOP();`.
"""
import collections

from .. import boot, run, diff
from ..cref import operands_closure, CParseError, walk
from ..cref.eval import NotInDialect
from ..il import reader
from ..il.interp import ILError

# wrappers that exercise every bundled sub-routine through a caller (besides their uses in the corpus)
SUB_WRAPPERS = {
    "sub:fcirc_add": "{ EA = RxV; RdV = fcirc_add(bundle, RxV, siV, MuV, get_corresponding_CS(pkt, MuV)); }",
    "sub:trap": "{ trap(RsV, uiV); RdV = 1; }",
    "sub:clz32": "{ RdV = clz32(RsV); }",
    "sub:clz64": "{ RddV = clz64(RssV); }",
    "sub:clo32": "{ RdV = clo32(RsV); }",
    "sub:clo64": "{ RddV = clo64(RssV); }",
    "sub:revbit16": "{ RdV = revbit16(RsV); }",
    "sub:revbit32": "{ RdV = revbit32(RsV); }",
    "sub:revbit64": "{ RddV = revbit64(RssV); }",
    "sub:fbrev": "{ RdV = fbrev(RsV); }",
    "sub:conv_round": "{ RdV = conv_round(RsV, uiV); }",
    "sub:set_usr_field": "{ set_usr_field(bundle, HEX_REG_FIELD_USR_OVF, RsV); set_usr_field(bundle, HEX_REG_FIELD_USR_LPCFG, uiV); }",
    "sub:get_usr_field": "{ RdV = get_usr_field(bundle, HEX_REG_FIELD_USR_LPCFG); RdV = RdV + get_usr_field(bundle, HEX_REG_FIELD_USR_OVF); }",
}


def unsupported_in(ast, known_fns):
    """constructs in the C text that the dialect does not translate (reference front end's view)"""
    from ..cref.ast import UNSUPPORTED_STMT
    bad = []
    for n in walk(ast):
        if not n:
            continue
        k = n[0]
        if k in UNSUPPORTED_STMT or k in ("comma", "index", "member", "deref", "addrof", "pre"):
            bad.append(k)
        elif k == "call" and n[1] not in known_fns:
            bad.append("call:" + n[1])
    return bad


def judge_part(p, compiler, resolver, key, text, il_text, nstates, seed, known_fns, subs):
    """run one accepted part; records failures into Part p. key = 'INSN[part]'"""
    import hypothesis
    from hypothesis import given, settings, Phase
    sig = f"C01 {key}"
    try:
        ast = diff.parse_c(text)
    except CParseError:
        p.count("part:unmodelled(reference parser)")
        return
    bad = unsupported_in(ast, known_fns)
    if bad:
        p.failure(f"{sig} accepts-unsupported", {"insn": key, "text": text, "constructs": sorted(set(bad)),
                                                  "il": il_text})
        p.count("part:accepts-unsupported")
        return
    try:
        body = reader.parse_body(il_text)
    except reader.ReadError as e:
        p.failure(f"{sig} il-unreadable", {"insn": key, "text": text, "error": str(e), "il": il_text})
        return
    try:
        ops = operands_closure(ast, subs)
        strat = diff.state_strategy(ops)
    except diff.Discard as e:
        p.count("part:discard " + e.why)
        return
    stats = collections.Counter()
    branches = collections.defaultdict(set)
    fails = []

    def one(state):
        p.ev()
        try:
            oc, cev = diff.run_c(ast, state, subs)
        except diff.Discard as e:
            stats[e.why] += 1
            return None
        except NotInDialect as e:
            stats["notindialect:" + str(e)[:40]] += 1
            return None
        for b in cev.branches:
            branches[b[0]].add(b[1])
        try:
            oi, _ = diff.run_il(body, state, resolver)
        except diff.Discard as e:
            stats[e.why] += 1
            return None
        except ILError as e:
            return ("il-error " + type(e).__name__, str(e))
        stats["judged"] += 1
        if oc["regs"] or oc["mem"] or oc["jump"][0] or oc["cancel"]:
            p.nontriv((key, run.h64(state)))
        d = diff.diff_outcomes(oc, oi)
        if d:
            return ("value-diff", d[:4])
        return None

    @hypothesis.seed(seed)
    @settings(max_examples=nstates, database=None, deadline=None, derandomize=False,
              phases=[Phase.generate], suppress_health_check=list(hypothesis.HealthCheck))
    @given(strat)
    def prop(state):
        r = one(state)
        if r is not None:
            fails.append((r, state))

    prop()
    for k, v in stats.items():
        p.count("state:" + k.split(":")[0], v)
    if stats["judged"] == 0:
        p.count("part:never judged")
    else:
        p.count("part:judged")
        nb = len(branches)
        both = sum(1 for v in branches.values() if len(v) > 1)
        p.count("branch nodes seen", nb)
        p.count("branch nodes seen both ways", both)
    if fails:
        kinds = {}
        for (kind, detail), st in fails:
            cur = kinds.get(kind)
            cand = {"insn": key, "text": text, "state": st, "detail": detail, "il": il_text}
            if cur is None or run._size(cand) < run._size(cur):
                kinds[kind] = cand
        for kind, rep in kinds.items():
            p.failure(f"{sig} {kind}", rep)
    if len(p.d["samples"]) < 2 and stats["judged"]:
        p.sample({"insn": key, "text": text[:200], "states_judged": stats["judged"]})


def worker(names, nstates, seed):
    p = run.Part()
    c = boot.compiler()
    resolver = diff.make_resolver(c)
    subs = diff.bundled_subs()
    noped = set(diff.noped_list())
    known = set(subs) | {"extract32", "extract64", "sextract64", "deposit32", "deposit64", "bswap16", "bswap32",
                         "bswap64", "REGFIELD", "get_corresponding_CS", "get_npc", "STORE_SLOT_CANCELLED", "fatal"}
    known |= diff.macro_names()
    for name in names:
        if name.startswith("sub:"):
            text = SUB_WRAPPERS[name]
            try:
                il = c.compile_c_stmt(text)
            except Exception as e:
                c.transformer.reset()
                p.failure(f"C01 {name}[0] rejects-in-dialect", {"insn": name, "text": text, "error": str(e)[:300]})
                continue
            judge_part(p, c, resolver, f"{name}[0]", text, il, nstates, run.sub_seed(seed, name), known, subs)
            continue
        parts = boot.corpus()[name]
        status, res = diff.compile_insn(c, name, parts)
        if status != "ok":
            p.count("insn:" + status)
            # rejecting is always allowed by the property unless the behaviour is in the supported dialect;
            # 'in the dialect' is judged conservatively: the reference models it completely and it uses only
            # constructs that some accepted instruction also uses -> reported as statistics only
            continue
        p.count("insn:accepted")
        if name in noped:
            for pi, il in enumerate(res.rzil):
                p.ev()
                if il.strip() != "return NOP();" or res.meta[pi] != ["HEX_IL_INSN_ATTR_NONE"]:
                    p.failure(f"C01 {name}[{pi}] noped-not-nop", {"insn": name, "il": il, "meta": res.meta[pi]})
                p.nontriv(("noped", name, pi))
            continue
        for pi, (text, il) in enumerate(zip(parts, res.rzil)):
            judge_part(p, c, resolver, f"{name}[{pi}]", text, il, nstates, run.sub_seed(seed, name, pi), known, subs)
    return p.d


def run_check(ctx):
    names = sorted(boot.corpus())
    if ctx.tier == "thorough":
        sel, nstates = names, 120
    else:
        sel, nstates = diff.stratified_sample(names, 230, ctx.seed), 20
    # witnesses of listed findings are always replayed (so every listed finding is reported, or seen fixed)
    wit = [f["witness"]["insn"].split("[")[0] for f in ctx.findings if f.get("status") == "open"]
    sel = list(SUB_WRAPPERS) + [w for w in wit if w not in sel] + sel
    ctx.rule = ("corpus parts (thorough: all 2181 definitions; quick: stratified sample by VERIF_SEED) + one caller "
                "per bundled sub-routine, each executed on Hypothesis-generated machine states (boundary-biased "
                "register/immediate/memory values, .new banks differing); non-trivial = distinct (part,state) whose "
                "C execution writes a register, memory, the jump record or a cancel")
    ctx.assumptions = ["machine model of READ_REG/WRITE_REG banks, x registers and immediates: DESIGN.md section 4",
                       "float/HVX parts are not evaluated (counted as unmodelled)",
                       "C-undefined executions (shift count, extract bounds, uninitialised reads) are discarded"]
    chunks = [sel[i::64] for i in range(64)]
    run.run_sharded(ctx, worker, [(c, nstates, ctx.seed) for c in chunks if c], procs=16)
    ctx.extra["instructions_selected"] = len(sel)


def replay(rep):
    c = boot.compiler()
    resolver = diff.make_resolver(c)
    key = rep["insn"]
    name = key.split("[")[0]
    pi = int(key.split("[")[1].rstrip("]")) if "[" in key else 0
    if name.startswith("sub:"):
        il = c.compile_c_stmt(rep["text"])
        text = rep["text"]
    else:
        status, res = diff.compile_insn(c, name)
        if status != "ok":
            return True, f"replay: {name} is now rejected ({status})"
        il, text = res.rzil[pi], boot.corpus()[name][pi]
    if "state" not in rep:
        return False, f"replay: {key} still accepted: {rep.get('constructs', rep.get('error'))}"
    ast = diff.parse_c(text)
    body = reader.parse_body(il)
    try:
        oc, _ = diff.run_c(ast, rep["state"])
        oi, _ = diff.run_il(body, rep["state"], resolver)
    except diff.Discard as e:
        return True, f"replay: discarded ({e.why})"
    except ILError as e:
        return False, f"replay: IL error {type(e).__name__}: {e}"
    d = diff.diff_outcomes(oc, oi)
    return (not d), f"replay: C={oc} IL={oi} diff={d}"
