"""C11 - emitted text is a well-formed C body with sound companion metadata."""
import re

from .. import boot, gen, run, diff, staticrun, progcheck
from . import static_common

EXCLUDED = {"const_cond"}
FEATURES = gen.STATIC_FEATURES - EXCLUDED


def meta_issues(insn, pi, il):
    """needs_hi / needs_pkt true whenever the text mentions the variable; one getter name/declaration per part"""
    out = []
    if re.search(r"\bhi\b", il) and not insn.needs_hi[pi]:
        out.append(("needs-hi-false", "text mentions hi but needs_hi is false"))
    if re.search(r"\bpkt\b", il) and not insn.needs_pkt[pi]:
        out.append(("needs-pkt-false", "text mentions pkt but needs_pkt is false"))
    n = len(insn.rzil)
    names, decls = insn.getter_rzil["name"], insn.getter_rzil["fcn_decl"]
    if len(names) != n or len(decls) != n or len(set(names)) != n:
        out.append(("getter-count", f"{len(names)} getter names for {n} parts"))
    else:
        nm = names[pi]
        if n > 1 and not nm.endswith(f"_part{pi}"):
            out.append(("getter-name", f"part {pi} getter is {nm}"))
        if not re.fullmatch(r"[A-Za-z_]\w*", nm) or nm not in decls[pi]:
            out.append(("getter-name", f"getter {nm} / declaration {decls[pi]}"))
    return out


def getter_worker(names):
    """getter names must be unique across instructions (case folding makes collisions possible)"""
    from rzilcompiler.Compiler import RZILInstruction
    p = run.Part()
    seen = {}
    for name in names:
        parts = boot.corpus()[name]
        ins = RZILInstruction(name, ["return NOP();"] * len(parts), [["X"]] * len(parts), [""] * len(parts))
        for g in ins.getter_rzil["name"]:
            p.ev()
            if g in seen and seen[g] != name:
                p.failure(f"C11 getter-collision {g}", {"a": seen[g], "b": name, "getter": g})
            seen[g] = name
            p.nontriv(("getter", g))
    return p.d


AFTER_FAILURE_OK = ["{ RdV = RsV + RtV; }", "{ RdV = clz32(RsV); }", "{ int32_t a = RsV; a++; RdV = a; }",
                    "{ RdV = ({ int32_t t = RsV; t; }) + 1; }", "{ if (RsV) { RdV = 1; } else { RdV = clo32(RtV); } }",
                    "{ for (i = 0; i < 2; i++) { RxV += i; } }", "{ mem_store_u32(RsV, RtV); }", "{ PdV = (PsV & PtV); }"]
AFTER_FAILURE_FAIL = ["{ const int32_t cc = 1; cc = clz32(RsV); }", "{ int32_t k = 0; RdV = (k++, 2); }", "{ RdV = clz32(RsV, clo32(RtV)); }",
                      "{ RdV = clz32(RsV) + c11_unknown(RtV); }", "{ int32_t k0 = RsV; RdV = k0++ + c11_unknown(k0); }",
                      "{ RdV = ({ int32_t q = RsV; q; }) + c11_unknown(RtV); }", "{ RdV = clo32(clz32(RsV)) + *RtV; }"]


def after_failure_worker(fmt):
    """the text returned right after a compilation that ended in an exception (with value-producing operations
    already pending) must still be a well-formed body: nothing of the rejected behaviour may leak into it"""
    from . import c14
    p = run.Part()
    c = boot.new_compiler(fmt)
    resolver = diff.make_resolver(c)
    subinfo = staticrun.SubInfo()
    fails = list(c14.FAILING) + AFTER_FAILURE_FAIL
    for i, bad in enumerate(fails):
        for j in range(3):
            st, _ = progcheck.try_compile(c, bad)
            if st == "ok":
                p.count("after-failure: 'failing' program accepted")
                break
            good = AFTER_FAILURE_OK[(i + j) % len(AFTER_FAILURE_OK)]
            p.ev()
            st, il = progcheck.try_compile(c, good)
            if st != "ok":
                p.failure(f"C11 after-failure: accepted behaviour raises after a rejected one [{fmt}]", {"failing": bad, "program": good, "fmt": fmt, "error": il})
                continue
            p.nontriv(("after-failure", bad, good, fmt))
            kinds = {}
            for kind, msg in staticrun.check_text("C11", il, good, resolver, subinfo):
                kinds.setdefault(kind, msg)
            for kind, msg in kinds.items():
                p.failure(f"C11 after-failure {kind} [{fmt}]", {"failing": bad, "program": good, "fmt": fmt, "issue": msg, "il": il})
    return p.d


# parts whose only use of `hi` / `pkt` is indirect (rounding mode of float ops, slot cancel, PC): compiled through
# transform_insn, the needs_hi / needs_pkt flags must follow the text
META_TEMPLATES = ["{ R1 = fUNFLOAT(FLOAT(RZ_FLOAT_IEEE754_BIN_32, R2)+FLOAT(RZ_FLOAT_IEEE754_BIN_32, R3)); }",
                  "{ HEX_REG_ALIAS_LR = fUNFLOAT(FLOAT(RZ_FLOAT_IEEE754_BIN_32, HEX_REG_ALIAS_SP)*FLOAT(RZ_FLOAT_IEEE754_BIN_32, HEX_REG_ALIAS_FP)); }",
                  "{ R1:0 = fUNDOUBLE(DOUBLE(RZ_FLOAT_IEEE754_BIN_64, R3:2)-DOUBLE(RZ_FLOAT_IEEE754_BIN_64, R3:2)); }",
                  "{ R1 = HEX_REG_ALIAS_PC; }", "{ R1 = 5; }", "{ R1 = R2 + 1; }", "{ RdV = RsV; }", "{ RdV = siV; }",
                  "{ R1 = fUNFLOAT(FLOAT(RZ_FLOAT_IEEE754_BIN_32, R2)/FLOAT(RZ_FLOAT_IEEE754_BIN_32, R3)); cancel_slot; }",
                  "{ cancel_slot; }", "{ HEX_REG_ALIAS_LR = HEX_REG_ALIAS_PC + 8; }", "{ RdV = NsN; }"]


def meta_template_part(ctx):
    for fmt in ("stmt", "exec"):
        c = boot.compiler(fmt)
        for i, text in enumerate(META_TEMPLATES):
            ctx.evaluations += 1
            st, res = diff.compile_insn(c, f"META_c11_{i}", [text])
            if st != "ok":
                ctx.count("meta template rejected")
                continue
            ctx.nontriv(("meta-template", text, fmt))
            for kind, msg in meta_issues(res, 0, res.rzil[0]):
                ctx.failure(f"C11 meta template {kind} [{fmt}]", {"program": text, "fmt": fmt, "issue": msg, "il": res.rzil[0]})


def run_check(ctx):
    ctx.rule = ("every accepted corpus part (thorough: all; quick: 120 stratified) and every bundled sub-routine definition in both "
                "layouts + Hypothesis programs (many operands, folded constants, hybrids); checks statement shapes, declared-once, "
                "declared-before-use, identifier syntax, parentheses, needs_hi/needs_pkt, getter names (uniqueness over the whole "
                "corpus); non-trivial = distinct (text, layout) with >= 6 emitted lines")
    ctx.assumptions = ["plugin vocabulary = identifiers hi/pkt/bundle and names starting HEX_ / RZ_FLOAT_ (documented macros/enums)"]
    static_common.run_static(ctx, "C11", FEATURES, extra_fn=meta_issues)
    run.run_sharded(ctx, getter_worker, [(sorted(boot.corpus()),)], procs=1)
    run.run_sharded(ctx, after_failure_worker, [("stmt",), ("exec",)], procs=2)
    meta_template_part(ctx)


def replay(rep):
    return static_common.replay_static("C11", rep)
