"""C11 - emitted text is a well-formed C body with sound companion metadata."""
import re

from .. import boot, gen, run, diff, staticrun
from . import static_common

EXCLUDED = {"const_cond"}
FEATURES = gen.STATIC_FEATURES - EXCLUDED


def meta_issues(insn, pi, il):
    """needs_hi / needs_pkt true whenever the text mentions the variable; one getter name/declaration per part"""
    out = []
    if re.search(r"\bhi\b", il) and not insn.needs_hi[pi]:
        out.append(("needs-hi-false", "text mentions hi but needs_hi is false"))
    if re.search(r"\bpkt\b", il) and not insn.needs_pkt[pi]:
        out.append(("needs-pkt-false", "text mentions pkt but needs_pkt is false"))
    n = len(insn.rzil)
    names, decls = insn.getter_rzil["name"], insn.getter_rzil["fcn_decl"]
    if len(names) != n or len(decls) != n or len(set(names)) != n:
        out.append(("getter-count", f"{len(names)} getter names for {n} parts"))
    else:
        nm = names[pi]
        if n > 1 and not nm.endswith(f"_part{pi}"):
            out.append(("getter-name", f"part {pi} getter is {nm}"))
        if not re.fullmatch(r"[A-Za-z_]\w*", nm) or nm not in decls[pi]:
            out.append(("getter-name", f"getter {nm} / declaration {decls[pi]}"))
    return out


def getter_worker(names):
    """getter names must be unique across instructions (case folding makes collisions possible)"""
    from rzilcompiler.Compiler import RZILInstruction
    p = run.Part()
    seen = {}
    for name in names:
        parts = boot.corpus()[name]
        ins = RZILInstruction(name, ["return NOP();"] * len(parts), [["X"]] * len(parts), [""] * len(parts))
        for g in ins.getter_rzil["name"]:
            p.ev()
            if g in seen and seen[g] != name:
                p.failure(f"C11 getter-collision {g}", {"a": seen[g], "b": name, "getter": g})
            seen[g] = name
            p.nontriv(("getter", g))
    return p.d


def run_check(ctx):
    ctx.rule = ("every accepted corpus part (thorough: all; quick: 120 stratified) and every bundled sub-routine definition in both "
                "layouts + Hypothesis programs (many operands, folded constants, hybrids); checks statement shapes, declared-once, "
                "declared-before-use, identifier syntax, parentheses, needs_hi/needs_pkt, getter names (uniqueness over the whole "
                "corpus); non-trivial = distinct (text, layout) with >= 6 emitted lines")
    ctx.assumptions = ["plugin vocabulary = identifiers hi/pkt/bundle and names starting HEX_ / RZ_FLOAT_ (documented macros/enums)"]
    static_common.run_static(ctx, "C11", FEATURES, extra_fn=meta_issues)
    run.run_sharded(ctx, getter_worker, [(sorted(boot.corpus()),)], procs=1)


def replay(rep):
    return static_common.replay_static("C11", rep)
