"""C18 - pooled parsing equals sequential parsing and isolates failures.

Cases: random subsets/orderings of short corpus behaviours (incl. two-part ones) with syntactically broken
behaviours injected at random positions (also as either part of a two-part entry). Schedules: pool sizes
{1,2,3,5,8,16} (by substituting rzilcompiler.Parser.Pool) and per-task delays that are a pure function of
(case seed, name), injected by wrapping parse_single (fork start method carries the wrapper), so completion order
differs from submission order reproducibly. Oracle: sequential in-process parsing with one Lark object.
"""
import concurrent.futures as cf
import functools
import multiprocessing
import os
import random
import time

from .. import boot, run

BROKEN = ["{", "}", "{ RdV = ; }", "{ RdV = RsV", "", "{ RdV = RsV + ; }", "{ if (RsV { RdV = 1; } }", "{ RdV = 1 $ 2; }",
          "{ RdV == ; }", "{{ RdV = 1; }", "@"]


_ORIG = [None]
_SEED = [0]


def _wrapped_parse_single(bundle):
    """module-level (picklable by reference) wrapper; the forked pool workers inherit _ORIG/_SEED"""
    h = run.h64(_SEED[0], bundle.name) % 4
    if h:
        time.sleep(0.015 * h)
    return _ORIG[0](bundle)


def sequential(grammar, cases):
    """oracle: name -> ('ok', [trees]) | ('exc', class name)"""
    from lark import Lark
    parser = Lark(grammar, start="fbody", parser="earley")
    out = {}
    for name, parts in cases.items():
        try:
            out[name] = ("ok", [parser.parse(b) for b in parts])
        except Exception as e:
            out[name] = ("exc", type(e).__name__)
    return out


def make_case(rng, pool, nmin, nmax):
    n = rng.randint(nmin, nmax)
    names = rng.sample(sorted(pool), n)
    case = {}
    nbroken = 0
    for nm in names:
        parts = list(pool[nm])
        r = rng.random()
        if r < 0.18:
            parts = [rng.choice(BROKEN)]
            nbroken += 1
        elif r < 0.30 and len(parts) == 2:
            parts[rng.randrange(2)] = rng.choice(BROKEN)
            nbroken += 1
        elif r < 0.36:
            parts = [parts[0], rng.choice(BROKEN)]   # good first part, broken later part
            nbroken += 1
        case[nm] = parts
    items = list(case.items())
    rng.shuffle(items)
    return dict(items), nbroken


def run_case(args):
    """runs in a non-daemonic worker process: one case x several pool sizes"""
    case_seed, nmin, nmax, sizes = args
    boot.boot()
    import rzilcompiler.Parser as RP
    from rzilcompiler.Configuration import Conf, InputFile
    p = run.Part()
    rng = random.Random(case_seed)
    corpus = {n: parts for n, parts in boot.corpus().items() if sum(len(x) for x in parts) <= 130}
    case, nbroken = make_case(rng, corpus, nmin, nmax)
    # always some two-part behaviours that share their first part but differ in the second (and vice versa)
    fam = {}
    for n, parts in boot.corpus().items():
        if len(parts) == 2 and sum(len(x) for x in parts) <= 260:
            fam.setdefault(parts[0], []).append(n)
    groups = [g for g in fam.values() if len({tuple(boot.corpus()[n]) for n in g}) >= 2]
    for g in rng.sample(groups, min(2, len(groups))):
        for n in rng.sample(g, min(3, len(g))):
            case[n] = list(boot.corpus()[n])
    items_ = list(case.items())
    rng.shuffle(items_)
    case = dict(items_)
    p.count("two-part entries", sum(1 for v in case.values() if len(v) == 2))
    with open(Conf.get_path(InputFile.GRAMMAR, "Hexagon")) as f:
        grammar = f.read()
    want = sequential(grammar, case)
    orig_pool, orig_single = RP.Pool, RP.parse_single
    ctx = multiprocessing.get_context("fork")
    for size in sizes:
        RP.Pool = functools.partial(ctx.Pool, size)
        _ORIG[0], _SEED[0] = orig_single, case_seed * 31 + size
        RP.parse_single = _wrapped_parse_single
        try:
            with boot.quiet():
                got = RP.Parser.parse(dict(case))
        except Exception as e:
            p.failure("C18 pooled parse aborted", {"case": case, "pool_size": size, "error": f"{type(e).__name__}: {e}"})
            continue
        finally:
            RP.Pool, RP.parse_single = orig_pool, orig_single
        p.ev()
        rep = {"case": case, "pool_size": size, "case_seed": case_seed}
        if list(sorted(got)) != list(sorted(case)):
            p.failure("C18 result keys differ from input names", dict(rep, got=sorted(got), want=sorted(case)))
            continue
        if list(got) != list(case):
            # sequential parsing yields the entries in input order; the compile loop iterates the mapping
            first = next(i for i, (x, y) in enumerate(zip(got, case)) if x != y)
            p.failure("C18 entry order differs from sequential parse", dict(rep, position=first, got=list(got)[first], want=list(case)[first]))
        for name, parts in case.items():
            g = got[name]
            w = want[name]
            if getattr(g, "name", None) != name or list(g.behaviors) != list(parts):
                p.failure("C18 entry carries wrong name/behaviours", dict(rep, entry=name))
                continue
            if w[0] == "ok":
                if g.exception is not None:
                    p.failure("C18 good entry reported as failed", dict(rep, entry=name, exc=g.exception.name))
                elif len(g.asts) != len(parts) or any(a != b for a, b in zip(g.asts, w[1])):
                    p.failure("C18 trees differ from sequential parse", dict(rep, entry=name, n_asts=len(g.asts)))
            else:
                if g.exception is None:
                    p.failure("C18 broken entry reported as parsed", dict(rep, entry=name, n_asts=len(g.asts)))
                elif g.exception.name != w[1]:
                    p.failure("C18 wrong exception name", dict(rep, entry=name, got=g.exception.name, want=w[1]))
                elif list(g.asts) != []:
                    p.failure("C18 failed entry keeps trees", dict(rep, entry=name, n_asts=len(g.asts)))
        if nbroken >= 1 and size >= 2:
            p.nontriv((case_seed, size))
        p.count(f"pool size:{size}")
    p.count("entries", len(case))
    p.count("broken entries", nbroken)
    p.sample({"entries": len(case), "broken": nbroken, "names": list(case)[:5], "pool_sizes": list(sizes)}, cap=1)
    return p.d


def run_check(ctx):
    ctx.rule = ("cases of 10-40 (thorough 10-60) short corpus behaviours with broken behaviours injected (whole entry, either part of a "
                "two-part entry, a later part after a good one) x pool sizes x per-task delays; non-trivial = distinct "
                "(case, pool size) with >= 1 broken entry and >= 2 workers")
    ctx.assumptions = ["the OS scheduler is not controlled: the harness owns pool size and (through delays) completion order only"]
    if ctx.tier == "thorough":
        ncases, nmin, nmax, sizes = 60, 10, 60, (1, 2, 3, 5, 8, 16)
    else:
        ncases, nmin, nmax, sizes = 12, 10, 30, (1, 3, 8)
    args = [(run.sub_seed(ctx.seed, "c18", i), nmin, nmax, sizes) for i in range(ncases)]
    with cf.ProcessPoolExecutor(max_workers=6, mp_context=multiprocessing.get_context("fork")) as ex:
        for d in ex.map(run_case, args):
            ctx.merge(d)


def replay(rep):
    boot.boot()
    import rzilcompiler.Parser as RP
    from rzilcompiler.Configuration import Conf, InputFile
    with open(Conf.get_path(InputFile.GRAMMAR, "Hexagon")) as f:
        grammar = f.read()
    case = rep["case"]
    want = sequential(grammar, case)
    orig = RP.Pool
    RP.Pool = functools.partial(multiprocessing.get_context("fork").Pool, rep.get("pool_size", 3))
    try:
        with boot.quiet():
            got = RP.Parser.parse(dict(case))
    finally:
        RP.Pool = orig
    bad = []
    for n, parts in case.items():
        g, w = got.get(n), want[n]
        if g is None:
            bad.append(n)
        elif w[0] == "ok" and (g.exception is not None or list(g.asts) != w[1]):
            bad.append(n)
        elif w[0] == "exc" and (g.exception is None or g.exception.name != w[1] or list(g.asts) != []):
            bad.append(n)
    return (not bad and sorted(got) == sorted(case)), f"replay: entries differing from sequential parse: {bad}"
