"""C16 - both output layouts denote the same effect.

Every subject (accepted corpus part, generated program with branches / loops / hybrids) is compiled by two
compilers, CodeFormat.READ_STATEMENTS and CodeFormat.EXEC_CLASSES. Required: same acceptance, same attribute
list, both texts well-formed (C11/C12 predicates), and identical final states when the RzIL interpreter executes
both on the same generated states.
"""
import collections

from ..machine import UnknownSlot
from .. import boot, run, diff, gen, progcheck, staticrun
from ..cref import show, operands_closure, CParseError
from ..il import reader, static
from ..il.interp import ILError

FEATURES = gen.SAFE_CORE | {"hyb_inc", "hyb_call", "hyb_stmtexpr", "pred", "narrow", "jump", "alias", "explicit", "new",
                             "compound_assign_narrow", "unbraced", "chain_assign", "macro", "div"}

_n = [0]


def compile_both(cs, name, parts):
    """-> {fmt: ('ok', insn) | ('reject', msg)} through transform_insn (attributes included)"""
    out = {}
    for fmt, c in cs.items():
        st, res = diff.compile_insn(c, name, parts)
        out[fmt] = ("ok", res) if st == "ok" else ("reject", f"{st}: {type(res).__name__}")
    return out


def compare_subject(p, cs, resolvers, subinfo, key, parts, nstates, seed, subs):
    r = compile_both(cs, key, parts)
    a, b = r["stmt"], r["exec"]
    p.ev()
    if (a[0] == "ok") != (b[0] == "ok"):
        p.failure("C16 accepted by one layout only", {"subject": key, "text": parts, "stmt": str(a[1])[:100] if a[0] != "ok" else "ok",
                                                     "exec": str(b[1])[:100] if b[0] != "ok" else "ok"})
        return
    if a[0] != "ok":
        p.count("subject:rejected by both")
        return
    ia, ib = a[1], b[1]
    if [sorted(m) for m in ia.meta] != [sorted(m) for m in ib.meta]:
        p.failure("C16 attribute lists differ", {"subject": key, "stmt": ia.meta, "exec": ib.meta})
    for pi, (text, ta, tb) in enumerate(zip(parts, ia.rzil, ib.rzil)):
        bodies = {}
        for fmt, t in (("stmt", ta), ("exec", tb)):
            try:
                bodies[fmt] = reader.parse_body(t)
            except reader.ReadError as e:
                p.failure(f"C16 ill-formed text ({fmt})", {"subject": key, "part": pi, "error": str(e)[:200]})
        if len(bodies) < 2:
            continue
        for fmt, body in bodies.items():
            iss = static.check_c_body(body, params=["bundle"]) + static.check_ownership(body)
            kinds = sorted({k for k, _ in iss})
            other = bodies["exec" if fmt == "stmt" else "stmt"]
            oiss = {k for k, _ in static.check_c_body(other, params=["bundle"]) + static.check_ownership(other)}
            for k in kinds:
                if k not in oiss:
                    p.failure(f"C16 only the {fmt} layout is ill-formed: {k}",
                              {"subject": key, "part": pi, "issue": [m for kk, m in iss if kk == k][:2], "text": text[:300]})
        if ta.strip() == "return NOP();" and tb.strip() == "return NOP();":
            continue
        try:
            ast = diff.parse_c(text)
            ops = operands_closure(ast, subs)
            if any(o.width > 64 for o in ops):
                raise diff.Discard("HVX")
            states = diff.simple_states(ops, nstates, run.sub_seed(seed, key, pi))
        except (CParseError, diff.Discard):
            p.count("part:not executable (unmodelled)")
            continue
        judged = 0
        first = None
        for stt in states:
            outs = {}
            err = {}
            for fmt, body in bodies.items():
                try:
                    # both texts are executed literally (old-bank reads after a write are not "ambiguous" here:
                    # the two layouts must perform the same reads, whatever they mean)
                    outs[fmt], _ = diff.run_il(body, stt, resolvers[fmt], literal_banks=True)
                except diff.Discard as e:
                    err[fmt] = "discard:" + e.why
                except UnknownSlot as e:
                    # a resource the machine model does not have (e.g. a write to the PC alias): not executable here
                    err[fmt] = "discard:unmodelled resource " + str(e)
                except ILError as e:
                    err[fmt] = "ilerror:" + type(e).__name__
            if any(v.startswith("discard") for v in err.values()):
                p.discard("il:" + sorted(err.values())[0])
                continue
            judged += 1
            if err.get("stmt") != err.get("exec"):
                first = first or ("one layout fails at run time", stt, err)
            elif not err and diff.diff_outcomes(outs["stmt"], outs["exec"]):
                first = first or ("final states differ", stt, diff.diff_outcomes(outs["stmt"], outs["exec"])[:3])
        if first:
            p.failure(f"C16 {first[0]}", {"subject": key, "part": pi, "text": text[:400], "state": first[1], "detail": first[2],
                                          "stmt": ta, "exec": tb})
        if judged and (text.count(";") >= 2) and any(w in text for w in ("if", "for", "++", "--", "({", "(")):
            p.nontriv((key, pi))
    if len(p.d["samples"]) < 3:
        p.sample({"subject": key, "text": parts[0][:200]})


def worker(names, nprog, nstates, seed):
    import hypothesis
    from hypothesis import given, settings, Phase
    p = run.Part()
    cs = {f: boot.compiler(f) for f in ("stmt", "exec")}
    resolvers = {f: diff.make_resolver(c) for f, c in cs.items()}
    subinfo = staticrun.SubInfo()
    subs = diff.bundled_subs()
    for name in names:
        compare_subject(p, cs, resolvers, subinfo, name, boot.corpus()[name], nstates, seed, subs)

    @hypothesis.seed(seed)
    @settings(max_examples=nprog, database=None, deadline=None, phases=[Phase.generate],
              suppress_health_check=list(hypothesis.HealthCheck))
    @given(gen.program(FEATURES, depth=2, nest=2, lo=2, hi=5))
    def prop(pe):
        stmts, env = pe
        stmts = gen.normalize(stmts, FEATURES, None, {})
        _n[0] += 1
        compare_subject(p, cs, resolvers, subinfo, f"GEN_c16_{_n[0]}", [show.program(stmts)], nstates, seed, subs)

    prop()
    return p.d


DEAD_LOADS = ["{ EA = RsV; RdV = (0 ? mem_load_s32(EA) : RtV); }", "{ RdV = (1 ? RtV : mem_load_u8(RsV)); }",
              "{ RdV = ((2 < 1) ? mem_load_s16(RsV) : 5); }", "{ RdV = (0 ? RsV : RtV); mem_store_u8(RsV, 0 ? RtV : 1); }",
              "{ if (0 ? mem_load_u32(RsV) : RtV) { RdV = 1; } }", "{ RdV = 1 ? 2 : clz32(mem_load_u32(RsV)); }",
              "{ RdV = 0 ? (P0 = 1) : 2; }", "{ RdV = 1 ? RsV : PuN; }", "{ RdV = 0 ? RsN : RtV; }",
              "{ if (1 ? 0 : PuV) { JUMP(riV); } }", "{ RdV = (1 ? RsV : 0); if (0 ? 1 : 0) { mem_store_u32(RsV, RtV); } }"]
NARROW_COMPOUND = [f"{{ {t} a = RsV; a {op} RtV; RdV = a; }}" for t in ("int8_t", "uint8_t", "int16_t", "uint16_t")
                   for op in ("+=", "-=", "*=", "<<=", ">>=", "/=", "%=", "&=", "|=", "^=")] + \
                  ["{ int32_t a = RsV; a /= RttV; RdV = a; }", "{ int32_t a = RsV; a %= RttV; RdV = a; }", "{ PdV = RsV; PdV += 1; }"]


def template_worker(texts, nstates, seed):
    p = run.Part()
    cs = {f: boot.compiler(f) for f in ("stmt", "exec")}
    resolvers = {f: diff.make_resolver(c) for f, c in cs.items()}
    subinfo = staticrun.SubInfo()
    subs = diff.bundled_subs()
    for i, t in enumerate(texts):
        compare_subject(p, cs, resolvers, subinfo, f"TPL_c16_{run.h64(t) % 10**8}", [t], nstates, seed, subs)
    return p.d


NESTED_DEAD = ["{ RdV = (1 ? 3 : ((RtV > 0) ? ({ int32_t x = RsV; x; }) : 1)); }",
               "{ RdV = (0 ? ((RtV > 0) ? ({ int32_t x = RsV; x + 1; }) : RuV) : RsV); }",
               "{ RdV = (1 ? RsV : ((RtV > RsV) ? clz32(RuV) : (RtV + 1))); }",
               "{ RdV = (1 ? 2 : ((RsV & 1) ? ((RtV & 2) ? 3 : RuV) : 4)); }"]


def templates(tier):
    from . import c07, c09, c15, static_common
    t = DEAD_LOADS + NARROW_COMPOUND + NESTED_DEAD + list(c09.DEAD_ARM_TEMPLATES) + list(c09.CONST_COND_TEMPLATES) + list(c15.TEMPLATES) + \
        static_common.bool_consumer_templates() + [x for _, x in c07.spelling_cells()]
    if tier == "thorough":
        t += static_common.context_templates()
    return t


def run_check(ctx):
    ctx.rule = ("accepted corpus parts (thorough: all; quick: 130 stratified) and Hypothesis programs (branches, loops, hybrids), each "
                "compiled in both CodeFormat layouts and executed by the RzIL interpreter on the same generated states; non-trivial = "
                "distinct subject with >= 2 statements and a branch/loop/hybrid that was executed")
    ctx.assumptions = ["equality is semantic (final register/memory/jump/cancel state), not textual; unmodelled (float/HVX) parts are "
                       "only compared for acceptance, attributes and well-formedness"]
    names = sorted(boot.corpus())
    if ctx.tier == "thorough":
        sel, nprog, ns = names, 8000, 12
    else:
        sel, nprog, ns = diff.stratified_sample(names, 130, ctx.seed), 320, 5
    shards = 16
    tt = templates(ctx.tier)
    ctx.extra["templates"] = len(tt)
    run.run_sharded(ctx, template_worker, [(tt[i::shards], 3, run.sub_seed(ctx.seed, "c16t", i)) for i in range(shards)])
    run.run_sharded(ctx, worker, [(sel[i::shards], nprog // shards, ns, run.sub_seed(ctx.seed, "c16", i)) for i in range(shards)])


def replay(rep):
    cs = {f: boot.compiler(f) for f in ("stmt", "exec")}
    p = run.Part()
    key = rep["subject"]
    parts = boot.corpus()[key] if key in boot.corpus() else [rep["text"]] if isinstance(rep.get("text"), str) else rep["text"]
    compare_subject(p, cs, {f: diff.make_resolver(c) for f, c in cs.items()}, staticrun.SubInfo(), key, parts, 8, 1,
                    diff.bundled_subs())
    return (not p.d["failures"]), f"replay: {[s for s, _ in p.d['failures']]}"
