"""Bootstrap: make the repository under test importable and usable from a check.

* the repository directory is $VERIF_REPO_DIR (default /repo); the package is imported from there
  (never from an installed copy) so that a check always sees the current working tree;
* Conf.get_path resolves <REPO> from the *cwd's* git top-level, so we chdir into the repo;
* logging of the compiler is silenced, tqdm goes to stderr which callers may discard.
"""
import contextlib
import io
import os
import sys

VERIF_DIR = os.path.dirname(os.path.dirname(os.path.abspath(__file__)))
REPO_DIR = os.path.abspath(os.environ.get("VERIF_REPO_DIR", "/repo"))

_booted = False


def boot(chdir=True):
    global _booted
    if chdir:
        os.chdir(REPO_DIR)
    if _booted:
        return
    # guard for hooks: none are needed, but the variable is exported for completeness
    os.environ.setdefault("ROT127_RZIL_COMPILER_VERIF", "1")
    sys.dont_write_bytecode = True
    if REPO_DIR not in sys.path:
        sys.path.insert(0, REPO_DIR)
    with contextlib.redirect_stdout(io.StringIO()):
        import rzilcompiler.Helper as H
    H.LOG_LEVEL = -1
    import rzilcompiler
    got = os.path.dirname(os.path.dirname(os.path.abspath(rzilcompiler.__file__)))
    if got != REPO_DIR:
        raise RuntimeError(f"rzilcompiler imported from {got}, expected {REPO_DIR}")
    _booted = True


_compilers = {}


def code_format(name):
    from rzilcompiler.Transformer.RZILTransformer import CodeFormat
    return {"stmt": CodeFormat.READ_STATEMENTS, "exec": CodeFormat.EXEC_CLASSES}[name]


def new_compiler(fmt="stmt"):
    """A fresh Compiler. NB: Compiler.sub_routines is class level (shared between instances)."""
    boot()
    from rzilcompiler.Compiler import Compiler
    from rzilcompiler.ArchEnum import ArchEnum
    with contextlib.redirect_stdout(io.StringIO()):
        return Compiler(ArchEnum.HEXAGON, code_format=code_format(fmt))


def compiler(fmt="stmt"):
    """Process-wide long-lived compiler for a layout.

    Its temporary numbering (h_tmpN) is advanced past the numbers used inside the bundled sub-routine bodies by
    compiling a few statements through the public API first: callee bodies are compiled by their own transformer
    and number their temporaries from 0, and the IL local namespace is flat, so a *fresh* compiler makes caller and
    callee temporaries collide (that history dependence is the business of C08/C14, which use new_compiler())."""
    if fmt not in _compilers:
        c = new_compiler(fmt)
        with quiet():
            for _ in range(16):
                c.compile_c_stmt("{ RdV = clz32(RsV); }")
        _compilers[fmt] = c
    return _compilers[fmt]


@contextlib.contextmanager
def quiet():
    """Silence stdout/stderr of the code under test (tqdm, log)."""
    with contextlib.redirect_stdout(io.StringIO()), contextlib.redirect_stderr(io.StringIO()):
        yield


_corpus = None


def corpus():
    """name -> list of behaviour texts, loaded by an independent reader (not the code under test)."""
    global _corpus
    if _corpus is None:
        import re
        res = {}
        p = os.path.join(REPO_DIR, "Resources/Hexagon/Preprocessor/shortcode_resolved.h")
        with open(p) as f:
            for line in f:
                if not line.startswith("insn("):
                    continue
                line = line.rstrip("\n")
                assert line.endswith(")")
                head, body = line[5:-1].split(", ", 1)
                res[head] = split_compound(body)
        _corpus = res
    return _corpus


def split_compound(body):
    """Independent compound splitter: brace matching, not regex."""
    M = "__COMPOUND_PART1__"
    if M not in body:
        return [body]
    a = body.index(M)
    b = body.index(M, a + len(M))
    p1 = body[a + len(M):b]
    rest = body[:a] + body[b + len(M):]
    return [p1.strip(), rest]
