"""Runner utilities: context, evidence, replay files, known findings, sharded workers."""
import hashlib
import json
import multiprocessing as mp
import os
import sys
import time
import traceback

from . import boot

VERIF_DIR = boot.VERIF_DIR


class HarnessError(Exception):
    """Something is wrong with the machinery (exit 2) - never reported as a violation."""


def h64(*parts):
    m = hashlib.sha256()
    for p in parts:
        m.update(repr(p).encode())
        m.update(b"\0")
    return int.from_bytes(m.digest()[:8], "big")


def sub_seed(seed, *parts):
    return h64(seed, *parts) & 0x7FFFFFFF


class Ctx:
    def __init__(self, pid, tier, seed):
        self.pid = pid
        self.tier = tier
        self.seed = seed
        self.t0 = time.time()
        self.evaluations = 0
        self.nontrivial = set()
        self.samples = []
        self.classes = {}
        self.excluded = {}
        self.discarded = {}
        self.violations = []      # (signature, replay dict)
        self.known_hit = {}       # finding id -> text
        self.extra = {}
        self.rule = ""
        self.assumptions = []
        self.exhaustive = None
        self.findings = load_known_findings(pid)
        self._sig_seen = set()

    # ---- counters
    def count(self, cls, n=1):
        self.classes[cls] = self.classes.get(cls, 0) + n

    def discard(self, why, n=1):
        self.discarded[why] = self.discarded.get(why, 0) + n

    def exclude(self, why, n=1):
        self.excluded[why] = self.excluded.get(why, 0) + n

    def nontriv(self, key):
        self.nontrivial.add(key if isinstance(key, int) else h64(key))

    def sample(self, s, cap=12):
        if len(self.samples) < cap:
            self.samples.append(s)

    def merge(self, part):
        """merge a worker's partial result dict"""
        self.evaluations += part.get("evaluations", 0)
        self.nontrivial.update(part.get("nontrivial", ()))
        for s in part.get("samples", ()):
            self.sample(s)
        for k, v in part.get("classes", {}).items():
            self.count(k, v)
        for k, v in part.get("discarded", {}).items():
            self.discard(k, v)
        for k, v in part.get("excluded", {}).items():
            self.exclude(k, v)
        for sig, rep in part.get("failures", ()):
            self.failure(sig, rep)

    # ---- failures
    def failure(self, sig, replay):
        """Register a failing case with signature `sig` (a short string). Known findings are matched by
        signature; everything else becomes a VIOLATION (one per signature, smallest replay kept)."""
        if " class=" in sig:
            # table cells: attributed to listed findings iff every class the cell belongs to is the class of an open finding
            cls = set(sig.split(" class=")[1].split(" ")[0].split("+"))
            open_f = [f for f in self.findings if f.get("status") == "open" and f.get("cell_classes")]
            union = set().union(*[set(f["cell_classes"]) for f in open_f]) if open_f else set()
            if cls != {"none"} and cls <= union:
                for f in open_f:
                    if cls & set(f["cell_classes"]):
                        self.known_hit.setdefault(f["id"], f)
                        self.count("known_finding:" + f["id"])
                        return
        for f in self.findings:
            if f.get("status") == "open" and sig_matches(f, sig, replay):
                self.known_hit.setdefault(f["id"], f)
                self.count("known_finding:" + f["id"])
                return
        for i, (s, r) in enumerate(self.violations):
            if s == sig:
                if _size(replay) < _size(r):
                    self.violations[i] = (sig, replay)
                return
        self.violations.append((sig, replay))

    # ---- finish
    def finish(self):
        wall = time.time() - self.t0
        nviol = len(self.violations)
        lines = []
        for f in self.known_hit.values():
            lines.append(f"KNOWN-FINDING: property={self.pid} {f['id']}: {f['what']}")
        rdir = os.path.join(VERIF_DIR, "replays", self.pid)
        for sig, rep in self.violations:
            os.makedirs(rdir, exist_ok=True)
            name = "viol_" + hashlib.sha1(sig.encode()).hexdigest()[:10] + ".json"
            path = os.path.join(rdir, name)
            rep = dict(rep)
            rep["property"] = self.pid
            rep["signature"] = sig
            with open(path, "w") as fh:
                json.dump(rep, fh, indent=1, default=str)
            lines.append(f"VIOLATION property={self.pid} replay={os.path.relpath(path, VERIF_DIR)}  [{sig}]")
        cov = {
            "evaluations": int(self.evaluations),
            "distinct_nontrivial": len(self.nontrivial),
            "rule": self.rule,
            "samples": self.samples[:12] or ["<none>"],
            "classes": dict(sorted(self.classes.items())),
            "discarded": self.discarded,
            "excluded_by_construction": self.excluded,
            "known_findings_reproduced": sorted(self.known_hit),
        }
        if self.exhaustive is not None:
            cov["exhaustive"] = bool(self.exhaustive)
        cov.update(self.extra)
        ev = {
            "property_id": self.pid,
            "tier": self.tier,
            "seed": int(self.seed),
            "level": "exploration",
            "coverage": cov,
            "assumptions": self.assumptions,
            "wall_s": round(wall, 2),
            "violations": nviol,
        }
        os.makedirs(os.path.join(VERIF_DIR, "evidence"), exist_ok=True)
        with open(os.path.join(VERIF_DIR, "evidence", f"{self.pid}.json"), "w") as fh:
            json.dump(ev, fh, indent=1, default=str)
        for l in lines:
            print(l)
        print(f"[{self.pid}] tier={self.tier} seed={self.seed} evaluations={self.evaluations} "
              f"nontrivial={len(self.nontrivial)} violations={nviol} known={len(self.known_hit)} "
              f"wall={wall:.1f}s")
        if nviol:
            return 1
        if self.evaluations < 1 or len(self.nontrivial) < 2:
            print(f"[{self.pid}] HARNESS ERROR: vacuous run", file=sys.stderr)
            return 2
        return 0


def _size(rep):
    return len(json.dumps(rep, default=str))


def sig_matches(finding, sig, replay):
    """A finding lists exact signatures or signature prefixes (`sig_prefix`)."""
    if sig in finding.get("signatures", ()):
        return True
    for p in finding.get("sig_prefix", ()):
        if sig.startswith(p):
            return True
    cc = finding.get("cell_classes")
    if cc and " class=" in sig:
        cls = set(sig.split(" class=")[1].split(" ")[0].split("+"))
        # a failing table cell is attributed to listed findings only if every class it belongs to is listed here
        if cls != {"none"} and cls <= set(cc) | set(finding.get("cell_classes_also", [])):
            return True
    for p in finding.get("sig_regex", ()):
        import re
        if re.search(p, sig):
            return True
    return False


def load_known_findings(pid):
    p = os.path.join(VERIF_DIR, "known_findings.json")
    if not os.path.exists(p):
        return []
    with open(p) as fh:
        data = json.load(fh)
    return [f for f in data.get("findings", []) if f.get("property") == pid]


# ---------------------------------------------------------------------------------------------
# sharded execution: worker(func, shard_args) in fresh forked processes, each returns a dict

def _call(args):
    func, a = args
    try:
        boot.boot()
        return func(*a)
    except HarnessError as e:
        return {"harness_error": f"{e}\n{traceback.format_exc()}"}
    except Exception as e:  # a crash inside the harness is a harness error
        return {"harness_error": f"{type(e).__name__}: {e}\n{traceback.format_exc()}"}


def run_sharded(ctx, func, arglist, procs=None):
    """Run func(*args) for each args in arglist across processes; merge the returned partial dicts."""
    procs = procs or min(16, max(1, len(arglist)))
    mpctx = mp.get_context("fork")
    results = []
    with mpctx.Pool(procs, maxtasksperchild=None) as pool:
        for r in pool.imap_unordered(_call, [(func, a) for a in arglist], chunksize=1):
            results.append(r)
    errs = [r["harness_error"] for r in results if r and "harness_error" in r]
    if errs:
        raise HarnessError(errs[0])
    for r in results:
        if r:
            ctx.merge(r)
    return results


def new_part():
    return {"evaluations": 0, "nontrivial": set(), "samples": [], "classes": {}, "discarded": {},
            "excluded": {}, "failures": []}


class Part:
    """Worker-side accumulator with the same counting API as Ctx; `.d` is the dict sent back."""

    def __init__(self):
        self.d = new_part()

    def ev(self, n=1):
        self.d["evaluations"] += n

    def count(self, cls, n=1):
        c = self.d["classes"]
        c[cls] = c.get(cls, 0) + n

    def discard(self, why, n=1):
        c = self.d["discarded"]
        c[why] = c.get(why, 0) + n

    def exclude(self, why, n=1):
        c = self.d["excluded"]
        c[why] = c.get(why, 0) + n

    def nontriv(self, key):
        self.d["nontrivial"].add(key if isinstance(key, int) else h64(key))

    def sample(self, s, cap=4):
        if len(self.d["samples"]) < cap:
            self.d["samples"].append(s)

    def failure(self, sig, replay):
        fl = self.d["failures"]
        for i, (s, r) in enumerate(fl):
            if s == sig:
                if _size(replay) < _size(r):
                    fl[i] = (sig, replay)
                return
        fl.append((sig, replay))
