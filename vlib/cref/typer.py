"""Static C11 typing of dialect expressions (used by the generators; mirrors CEval.static_type)."""
from .eval import promote, common, INT, UINT, SIZE_T, INTRINSIC_SIG


def type_of(e, vartypes, subs=None, sizeof_type=SIZE_T):
    k = e[0]
    rec = lambda x: type_of(x, vartypes, subs, sizeof_type)
    if k == "paren":
        return rec(e[1])
    if k == "num":
        return e[2]
    if k == "opnd":
        return (e[1].signed, e[1].width)
    if k == "var":
        return vartypes[e[1]]
    if k == "cast":
        return e[1]
    if k == "un":
        return INT if e[1] == "!" else promote(rec(e[2]))
    if k == "bin":
        op = e[1]
        if op in ("<", ">", "<=", ">=", "==", "!=", "&&", "||"):
            return INT
        if op in ("<<", ">>"):
            return promote(rec(e[2]))
        return common(rec(e[2]), rec(e[3]))
    if k == "cond":
        return common(rec(e[2]), rec(e[3]))
    if k in ("assign", "post", "pre"):
        return rec(e[2])
    if k == "load":
        return (e[1], e[2])
    if k == "stmtexpr":
        vt = dict(vartypes)
        for s in e[1]:
            if s[0] == "decl":
                vt[s[2]] = s[1]
        return type_of(e[2], vt, subs, sizeof_type)
    if k in ("sizeof", "sizeoft"):
        return sizeof_type
    if k == "call":
        if e[1] in INTRINSIC_SIG:
            return INTRINSIC_SIG[e[1]][0]
        if subs and e[1] in subs:
            return subs[e[1]].ret
        if e[1] in ("REGFIELD", "get_npc"):
            return UINT
        if e[1] == "get_corresponding_CS":
            return INT
    raise ValueError(f"no static type for {e!r}")
