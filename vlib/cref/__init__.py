"""Reference C model: front end (parse.py), evaluator (eval.py), helpers to load the bundled sub-routines
and to extract the operand signature of a program."""
import json
import os
import re

from .ast import Operand, classify
from .parse import parse_program, strip_parens, CParseError, INT_T, SIZE_T
from .eval import CEval, SubDef, NotInDialect

EXTERNAL_TYPES = ["HexOp", "HexInsnPktBundle", "HexInsn", "HexPkt", "RzILOpEffect", "RzFloatFormat",
                  "HexRegFieldProperty", "HexRegField", "RzFloatRMode"]


def c_type(text):
    """'uint32_t' / 'int' / 'void' ... -> (signed,width) | None(void) | 'ext'"""
    text = text.strip()
    if text == "void":
        return None
    if any(t in text for t in EXTERNAL_TYPES):
        return "ext"
    table = {"int": (True, 32), "unsigned": (False, 32), "unsigned int": (False, 32)}
    if text in table:
        return table[text]
    m = INT_T.match(text)
    if m:
        return (m.group(1) != "u", int(m.group(2)))
    m = SIZE_T.match(text)
    if m:
        return (m.group(2) == "s", 8 * int(m.group(1)))
    raise ValueError(f"unknown C type {text!r}")


def make_subdef(name, ret, params, code):
    ps = []
    for p in params:
        m = re.match(r"^(.*?)([A-Za-z_]\w*)$", p.strip())
        ptype, pname = m.group(1).strip(), m.group(2)
        if "HexOp" in ptype:
            ps.append(("regref", None, pname))
        else:
            t = c_type(ptype.replace("*", "").strip())
            if t == "ext":
                ps.append(("ext", None, pname))
            else:
                ps.append(("val", t, pname))
    r = c_type(ret)
    body = strip_parens(parse_program(code))
    return SubDef(name, None if r is None else r, ps, body)


def load_bundled_subs(repo_dir):
    with open(os.path.join(repo_dir, "Resources/Hexagon/sub_routines.json")) as f:
        data = json.load(f)
    subs = {}
    for name, r in data["sub_routines"].items():
        subs[name] = make_subdef(name, r["return_type"], r["params"], r["code"])
    return subs, data["sub_routines"]


def walk(node):
    """all tuple nodes of an AST (statements and expressions)"""
    if isinstance(node, tuple):
        yield node
        for x in node:
            if isinstance(x, (tuple, list)):
                yield from walk(x)
    elif isinstance(node, list):
        for x in node:
            yield from walk(x)


def operands_of(ast):
    """distinct Operand objects of a program in first-occurrence order"""
    seen = {}
    for n in walk(ast):
        if n and n[0] == "opnd" and isinstance(n[1], Operand):
            seen.setdefault(n[1].text, n[1])
    return list(seen.values())


def operands_closure(ast, subs):
    """operands of the program plus the non-parameter operands (aliases...) of every sub-routine it calls"""
    ops = {o.text: o for o in operands_of(ast)}
    todo = [n[1] for n in walk(ast) if n and n[0] == "call"]
    seen = set()
    while todo:
        name = todo.pop()
        if name in seen or name not in subs:
            continue
        seen.add(name)
        sd = subs[name]
        refs = {p[2] for p in sd.params if p[0] == "regref"}
        for o in operands_of(sd.body):
            if o.text not in refs:
                ops.setdefault(o.text, o)
        todo.extend(n[1] for n in walk(sd.body) if n and n[0] == "call")
    return list(ops.values())
