"""Independent front end for the shortcode dialect: C lexer + precedence-climbing parser.

Written from the C11 grammar and QEMU's operand conventions; it does not read grammar.lark.
Raises CParseError on text that is not in the modelled dialect (callers treat that as 'not modelled').
"""
import re

from .ast import classify

class CParseError(Exception):
    pass


TOKEN = re.compile(r"""
    (?P<ws>\s+)
  | (?P<num>0[xX][0-9a-fA-F]*|\d[\d_]*)(?P<suf>[uUlL]*)
  | (?P<id>[A-Za-z_]\w*(?::\d{1,2}(?:_NEW)?)?)
  | (?P<str>"(?:[^"\\]|\\.)*")
  | (?P<op>>>=|<<=|\+\+|--|->|&&|\|\||<=|>=|==|!=|\+=|-=|\*=|/=|%=|&=|\^=|\|=|>>|<<|[-+*/%<>=!~&|^?:;,.(){}\[\]])
""", re.X)


def lex(text):
    out = []
    i, n = 0, len(text)
    while i < n:
        m = TOKEN.match(text, i)
        if not m:
            raise CParseError(f"cannot lex at {text[i:i+20]!r}")
        i = m.end()
        if m.group("ws"):
            continue
        if m.group("num") is not None:
            out.append(("num", m.group("num"), m.group("suf")))
        elif m.group("id"):
            s = m.group("id")
            if ":" in s and not re.match(r"^[RCPVQMGS]\d{1,2}:\d{1,2}(_NEW)?$", s):
                # not an explicit register pair: split at the colon (e.g. `a?b:c` or a label)
                head = s.split(":", 1)[0]
                i = m.start() + len(head)
                s = head
            out.append(("id", s))
        elif m.group("str"):
            out.append(("str", m.group("str")))
        else:
            out.append(("op", m.group("op")))
    return out


INT_T = re.compile(r"^(u?)int(8|16|32|64)_t$")
SIZE_T = re.compile(r"^size(1|2|4|8)([su])_t$")
TYPE_KW = {"int", "unsigned", "signed", "const", "long", "short", "char", "float", "double", "void", "_Bool",
           "volatile", "static", "register", "struct", "union", "enum", "size_t", "bool"}

ASSIGN_OPS = {"=", "+=", "-=", "*=", "/=", "%=", "<<=", ">>=", "&=", "^=", "|="}
BINPREC = [("||",), ("&&",), ("|",), ("^",), ("&",), ("==", "!="), ("<", ">", "<=", ">="), ("<<", ">>"),
           ("+", "-"), ("*", "/", "%")]


def is_type_start(tok):
    if tok[0] != "id":
        return False
    s = tok[1]
    return s in TYPE_KW or bool(INT_T.match(s)) or bool(SIZE_T.match(s))


def literal_type(text, suf):
    """C11 6.4.4.1 with int=32, long=long long=64."""
    hexa = text[:2].lower() == "0x"
    digits = text.replace("_", "")
    if hexa and len(digits) == 2:
        raise CParseError("empty hex literal")
    val = int(digits, 16 if hexa else 10)
    s = suf.upper()
    u = "U" in s
    l = "L" in s
    if u:
        cands = [(False, 64)] if l else [(False, 32), (False, 64)]
    elif l:
        cands = [(True, 64), (False, 64)] if hexa else [(True, 64)]
    else:
        cands = [(True, 32), (False, 32), (True, 64), (False, 64)] if hexa else [(True, 32), (True, 64)]
    for sg, w in cands:
        lim = (1 << (w - 1)) if sg else (1 << w)
        if val < lim:
            return val, (sg, w)
    raise CParseError("literal too large")


class Parser:
    def __init__(self, text):
        self.toks = lex(text)
        self.i = 0

    def peek(self, k=0):
        j = self.i + k
        return self.toks[j] if j < len(self.toks) else ("eof", "")

    def next(self):
        t = self.peek()
        self.i += 1
        return t

    def at(self, v):
        t = self.peek()
        return t[0] in ("op", "id") and t[1] == v

    def accept(self, v):
        if self.at(v):
            self.i += 1
            return True
        return False

    def expect(self, v):
        if not self.accept(v):
            raise CParseError(f"expected {v!r}, got {self.peek()[1]!r} (token {self.i})")

    # ------------------------------------------------------------ types
    def type_name(self):
        """declaration specifiers -> ((signed,width) | ('unsupported', text), const)"""
        words = []
        const = False
        while is_type_start(self.peek()):
            w = self.next()[1]
            if w == "const":
                const = True
            else:
                words.append(w)
        if not words:
            raise CParseError("type expected")
        if len(words) == 1:
            m = INT_T.match(words[0])
            if m:
                return (m.group(1) != "u", int(m.group(2))), const
            m = SIZE_T.match(words[0])
            if m:
                return (m.group(2) == "s", 8 * int(m.group(1))), const
        key = " ".join(words)
        table = {"int": (True, 32), "unsigned": (False, 32), "unsigned int": (False, 32)}
        if key in table:
            return table[key], const
        return ("unsupported", key), const

    # ------------------------------------------------------------ statements
    def program(self):
        """fbody: stmt*  (the behaviour is usually one compound statement)"""
        stmts = []
        while self.peek()[0] != "eof":
            stmts.append(self.stmt())
        return stmts

    def block_items(self):
        items = []
        while not self.at("}"):
            if self.peek()[0] == "eof":
                raise CParseError("unterminated block")
            items.append(self.stmt())
        return items

    def stmt(self):
        t = self.peek()
        if self.at("{"):
            self.next()
            items = self.block_items()
            self.expect("}")
            return ("block", items)
        if self.at(";"):
            self.next()
            return ("empty",)
        if t[0] == "id":
            s = t[1]
            if s == "if":
                self.next(); self.expect("(")
                c = self.expr()
                self.expect(")")
                th = self.stmt()
                el = None
                if self.accept("else"):
                    el = self.stmt()
                return ("if", c, th, el)
            if s == "for":
                self.next(); self.expect("(")
                if self.at(";"):
                    self.next(); init = None
                elif is_type_start(self.peek()):
                    init = self.declaration()
                else:
                    init = ("expr", self.expr()); self.expect(";")
                cond = None if self.at(";") else self.expr()
                self.expect(";")
                step = None if self.at(")") else self.expr()
                self.expect(")")
                return ("for", init, cond, step, self.stmt())
            if s == "while":
                self.next(); self.expect("(")
                c = self.expr(); self.expect(")")
                return ("while", c, self.stmt())
            if s == "do":
                self.next()
                b = self.stmt()
                if not self.accept("while"):
                    raise CParseError("do without while")
                self.expect("(")
                c = self.expr(); self.expect(")"); self.expect(";")
                return ("do", b, c)
            if s == "switch":
                self.next(); self.expect("(")
                e = self.expr(); self.expect(")")
                return ("switch", e, self.stmt())
            if s == "case":
                self.next()
                e = self.cond_expr(); self.expect(":")
                return ("case", e, self.stmt())
            if s == "default":
                self.next(); self.expect(":")
                return ("default", self.stmt())
            if s in ("break", "continue"):
                self.next(); self.expect(";")
                return (s,)
            if s == "goto":
                self.next()
                l = self.next()[1]
                self.expect(";")
                return ("goto", l)
            if s == "return":
                self.next()
                if self.accept(";"):
                    return ("return", None)
                e = self.expr(); self.expect(";")
                return ("return", e)
            if s == "JUMP" and self.peek(1)[1] == "(":
                self.next(); self.next()
                e = self.expr(); self.expect(")")
                return ("jump", e)           # NB: no ';' - a following ';' is an empty statement
            if s == "__NOP":
                self.next()
                return ("nop",)
            if s == "cancel_slot":
                self.next(); self.expect(";")
                return ("cancel",)
            m = re.match(r"^mem_store_([su])(8|16|32|64)$", s)
            if m and self.peek(1)[1] == "(":
                self.next(); self.next()
                a = self.assign_expr(); self.expect(",")
                v = self.assign_expr(); self.expect(")"); self.expect(";")
                return ("store", m.group(1) == "s", int(m.group(2)), a, v)
            if is_type_start(t):
                return self.declaration()
            if self.peek(1)[1] == ":" and classify(s) is None and self.peek(1)[0] == "op":
                self.next(); self.next()
                return ("label", s, self.stmt())
        e = self.expr()
        self.expect(";")
        return ("expr", e)

    def declaration(self):
        ty, const = self.type_name()
        if self.accept(";"):
            raise CParseError("declaration without declarator")
        decls = []
        while True:
            if self.at("*"):
                raise CParseError("pointer declarator")
            t = self.next()
            if t[0] != "id":
                raise CParseError("declarator expected")
            if self.at("["):
                raise CParseError("array declarator")
            init = None
            if self.accept("="):
                init = self.assign_expr()
            decls.append(("decl", ty, t[1], init, const))
            if self.accept(","):
                continue
            break
        self.expect(";")
        if len(decls) == 1:
            return decls[0]
        return ("multidecl", decls)

    # ------------------------------------------------------------ expressions
    def expr(self):
        e = self.assign_expr()
        while self.at(","):
            self.next()
            e = ("comma", e, self.assign_expr())
        return e

    def assign_expr(self):
        lhs = self.cond_expr()
        t = self.peek()
        if t[0] == "op" and t[1] in ASSIGN_OPS:
            self.next()
            rhs = self.assign_expr()
            return ("assign", t[1], lhs, rhs)
        return lhs

    def cond_expr(self):
        c = self.binary(0)
        if self.accept("?"):
            a = self.expr()
            self.expect(":")
            b = self.cond_expr()
            return ("cond", c, a, b)
        return c

    def binary(self, lvl):
        if lvl == len(BINPREC):
            return self.cast_expr()
        e = self.binary(lvl + 1)
        while True:
            t = self.peek()
            if t[0] == "op" and t[1] in BINPREC[lvl]:
                self.next()
                r = self.binary(lvl + 1)
                e = ("bin", t[1], e, r)
            else:
                return e

    def cast_expr(self):
        if self.at("(") and is_type_start(self.peek(1)):
            self.next()
            ty, const = self.type_name()
            if self.at("*"):
                raise CParseError("pointer type")
            self.expect(")")
            return ("cast", ty, self.cast_expr())
        return self.unary()

    def unary(self):
        t = self.peek()
        if t[0] == "op":
            if t[1] in ("+", "-", "~", "!"):
                self.next()
                return ("un", t[1], self.cast_expr())
            if t[1] in ("++", "--"):
                self.next()
                return ("pre", t[1], self.unary())
            if t[1] == "*":
                self.next()
                return ("deref", self.cast_expr())
            if t[1] == "&":
                self.next()
                return ("addrof", self.cast_expr())
        if t[0] == "id" and t[1] == "sizeof":
            self.next()
            if self.at("(") and is_type_start(self.peek(1)):
                self.next()
                ty, _ = self.type_name()
                self.expect(")")
                return ("sizeoft", ty)
            return ("sizeof", self.unary())
        return self.postfix()

    def postfix(self):
        e = self.primary()
        while True:
            if self.at("["):
                self.next()
                i = self.expr(); self.expect("]")
                e = ("index", e, i)
            elif self.at(".") or self.at("->"):
                arrow = self.next()[1] == "->"
                f = self.next()[1]
                e = ("member", e, f, arrow)
            elif self.at("++") or self.at("--"):
                e = ("post", self.next()[1], e)
            elif self.at("(") and e[0] in ("var", "enum"):
                self.next()
                args = []
                if not self.at(")"):
                    while True:
                        args.append(self.assign_expr())
                        if not self.accept(","):
                            break
                self.expect(")")
                name = e[1]
                m = re.match(r"^mem_load_([su])(8|16|32|64)$", name)
                if m and len(args) == 1:
                    e = ("load", m.group(1) == "s", int(m.group(2)), args[0])
                else:
                    e = ("call", name, args)
            else:
                return e

    def primary(self):
        t = self.next()
        if t[0] == "num":
            val, ty = literal_type(t[1], t[2])
            return ("num", val, ty, t[1] + t[2])
        if t[0] == "str":
            return ("str", t[1])
        if t[0] == "id":
            o = classify(t[1])
            if o is not None:
                return ("opnd", o)
            return ("var", t[1])
        if t == ("op", "("):
            if self.at("{"):
                self.next()
                items = self.block_items()
                self.expect("}")
                self.expect(")")
                if not items or items[-1][0] != "expr":
                    raise CParseError("statement expression must end in an expression statement")
                return ("stmtexpr", items[:-1], items[-1][1])
            e = self.expr()
            self.expect(")")
            return ("paren", e)
        raise CParseError(f"unexpected token {t[1]!r}")


def parse_program(text):
    """-> list of statements. ('paren', e) nodes are kept (the printer and C17 care); use strip_parens()."""
    p = Parser(text)
    return p.program()


def strip_parens(node):
    if isinstance(node, tuple):
        if node and node[0] == "paren":
            return strip_parens(node[1])
        return tuple(strip_parens(x) for x in node)
    if isinstance(node, list):
        return [strip_parens(x) for x in node]
    return node


def flatten_multidecl(stmts):
    out = []
    for s in stmts:
        if s[0] == "multidecl":
            out.extend(s[1])
        else:
            out.append(s)
    return out
