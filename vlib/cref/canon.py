"""Canonical structural form shared by the Lark tree of the repository's grammar and the reference AST, used by
C17. Parentheses are dropped, nested blocks are flattened into their statement list, empty statements are dropped
on both sides (the Lark tree keeps no node for the braces of a nested non-empty block); everything else - operator
nesting, cast vs unary, ?: nesting, if/else arms, for slots, statement-expressions, call arguments, declarations,
the classification of operand tokens - maps one-to-one.

Canonical nodes are tuples of strings / nested tuples:
  ('bin', op, a, b) ('un', op, a) ('cast', type, a) ('cond', c, a, b) ('assign', op, l, r) ('post', op, a) ('pre', op, a)
  ('call', name, args...) ('load', 's|u', bits, addr) ('stmtexpr', (stmts...), e) ('sizeof', a)
  ('reg', text) ('newreg', text) ('expl', text) ('alias', text) ('imm', text) ('id', text) ('num', text)
  statements: ('decl', type, name, init|None) ('expr', e) ('if', c, (then...), (else...)|None)
              ('for', init, cond, step, (body...)) ('store', 's|u', bits, addr, val) ('jump', e) ('return', e|None)
              ('cancel',) ('nop',) ('other', rule name)
"""
from lark import Tree, Token

from .ast import tname

BIN_RULES = {"multiplicative_expr", "additive_expr", "shift_expr", "relational_expr", "equality_expr", "and_expr",
             "exclusive_or_expr", "inclusive_or_expr", "logical_and_expr", "logical_or_expr"}


class CanonError(Exception):
    pass


# ------------------------------------------------------------------------------------------ from the Lark tree

def _type_text(node):
    """type_specifier / declaration_specifiers / specifier_qualifier_list -> canonical type text"""
    words = []

    def rec(n):
        if isinstance(n, Token):
            words.append(str(n))
        elif isinstance(n, Tree):
            if n.data == "c_int_type":
                words.append(f"{n.children[0]}{n.children[1]}_t")
            elif n.data == "c_size_type":
                words.append(f"size{n.children[0]}{n.children[1]}_t")
            else:
                for c in n.children:
                    rec(c)
        elif n is not None:
            words.append(str(n))
    rec(node)
    return " ".join(words)


def _norm_type(text):
    import re
    m = re.fullmatch(r"(const )?size(\d)([su])_t", text)
    if m:
        return (m.group(1) or "") + f"{'' if m.group(3) == 's' else 'u'}int{int(m.group(2)) * 8}_t"
    return {"unsigned int": "uint32_t", "unsigned": "uint32_t", "int": "int32_t", "const int": "const int32_t"}.get(text, text)


def lark_expr(n):
    if isinstance(n, Token):
        return ("tok", str(n))
    if n is None:
        return None
    d = n.data
    ch = n.children
    if d in BIN_RULES:
        return ("bin", str(ch[1]), lark_expr(ch[0]), lark_expr(ch[2]))
    if d == "conditional_expr":
        return ("cond", lark_expr(ch[0]), lark_expr(ch[1]), lark_expr(ch[2]))
    if d == "assignment_expr":
        return ("assign", str(ch[1]), lark_expr(ch[0]), lark_expr(ch[2]))
    if d == "cast_expr":
        return ("cast", _norm_type(_type_text(ch[0])), lark_expr(ch[1]))
    if d == "unary_expr":
        op = str(ch[0])
        if op == "sizeof":
            return ("sizeof", lark_expr(ch[1]))
        if op in ("++", "--"):
            return ("pre", op, lark_expr(ch[1]))
        return ("un", op.strip(), lark_expr(ch[1]))
    if d == "postfix_expr":
        if len(ch) == 2 and isinstance(ch[1], Token) and str(ch[1]) in ("++", "--"):
            return ("post", str(ch[1]), lark_expr(ch[0]))
        if len(ch) == 3 and isinstance(ch[1], Token) and str(ch[1]) in ("->", "."):
            return ("other", "member")
        if len(ch) == 2 and isinstance(ch[1], Token):
            return ("other", "member")
        if len(ch) == 2:
            return ("other", "index")
        return ("other", "postfix_expr") + tuple(lark_expr(c) if isinstance(c, Tree) else ("tok", str(c)) for c in ch)
    if d == "reg":
        return ("reg", "".join(str(c) for c in ch) + "V")
    if d == "new_reg":
        return ("newreg", "".join(str(c) for c in ch) + "N")
    if d == "explicit_reg":
        return ("expl", "".join(str(c) for c in ch if c is not None))
    if d == "reg_alias":
        post = ""
        if len(ch) > 1 and ch[1] is not None:
            post = "_NEW"
        return ("alias", "HEX_REG_ALIAS_" + str(ch[0]) + post)
    if d == "imm":
        return ("imm", str(ch[0]) + "iV")
    if d == "identifier":
        return ("id", str(ch[0]))
    if d == "number":
        return ("num", str(ch[0]) + (str(ch[1]) if ch[1] is not None else ""))
    if d == "mem_load":
        return ("load", str(ch[1]), str(ch[2])) + tuple(lark_expr(c) for c in ch[3:])
    if d in ("sub_routine", "macro_expr"):
        name = ch[0].children[0] if isinstance(ch[0], Tree) else ch[0]
        if str(name) == "sizeof" and len(ch) == 2:
            return ("sizeof", lark_expr(ch[1]))
        return ("call", str(name)) + tuple(lark_expr(c) for c in ch[1:] if c is not None)
    if d == "call_without_args":
        name = ch[0].children[0] if isinstance(ch[0], Tree) else ch[0]
        return ("call", str(name))
    if d == "gcc_extended_expr":
        items = []
        for c in ch[:-1]:
            items.extend(lark_stmts(c))
        last = ch[-1]
        # the final `expr ;`
        if isinstance(last, Tree) and last.data == "expr_stmt":
            return ("stmtexpr", tuple(items), None)
        return ("stmtexpr", tuple(items), lark_expr(last))
    if d == "expr":
        return ("comma",) + tuple(lark_expr(c) for c in ch)
    return ("other", d) + tuple(lark_expr(c) if isinstance(c, (Tree, Token)) else c for c in ch)


def lark_stmts(n):
    """-> list of canonical statements (blocks flattened, empty statements dropped)"""
    if n is None:
        return []
    if isinstance(n, Token):
        return [("expr", ("tok", str(n)))]
    d = n.data
    ch = n.children
    if d in ("fbody", "block_item_list", "block_item"):
        out = []
        for c in ch:
            out.extend(lark_stmts(c))
        return out
    if d == "compound_stmt" or (d == "expr_stmt" and not ch):
        return []
    if d == "declaration":
        ty = _norm_type(_type_text(ch[0]))
        rest = ch[1]
        if isinstance(rest, Tree) and rest.data == "init_declarator":
            return [("decl", ty, str(rest.children[0]), lark_expr(rest.children[1]))]
        if isinstance(rest, Token):
            return [("decl", ty, str(rest), None)]
        return [("other", "declaration")]
    if d == "selection_stmt":
        if str(ch[0]) == "if":
            els = tuple(lark_stmts(ch[4])) if len(ch) > 3 else None
            return [("if", lark_expr(ch[1]), tuple(lark_stmts(ch[2])), els)]
        return [("other", "switch")]
    if d == "iteration_stmt":
        if str(ch[0]) == "for" and len(ch) == 5:
            init = lark_stmts(ch[1])
            cond = ch[2]
            c = None if (isinstance(cond, Tree) and cond.data == "expr_stmt" and not cond.children) else lark_expr(cond)
            return [("for", tuple(init), c, lark_expr(ch[3]), tuple(lark_stmts(ch[4])))]
        if str(ch[0]) == "for" and len(ch) == 4:
            init = lark_stmts(ch[1])
            cond = ch[2]
            c = None if (isinstance(cond, Tree) and cond.data == "expr_stmt" and not cond.children) else lark_expr(cond)
            return [("for", tuple(init), c, None, tuple(lark_stmts(ch[3])))]
        return [("other", str(ch[0]))]
    if d == "mem_store":
        return [("store", str(ch[1]), str(ch[2])) + tuple(lark_expr(c) for c in ch[3:])]
    if d == "jump_stmt":
        first = ch[0]
        if isinstance(first, Tree) and first.data == "jump":
            j = first.children
            if isinstance(j[0], Tree) and j[0].data == "nop":
                return [("nop",)]
            return [("jump", lark_expr(j[1]))]
        kw = str(first)
        if kw == "return":
            return [("return", lark_expr(ch[1]) if len(ch) > 1 else None)]
        return [("other", kw)]
    if d == "cancel_slot_stmt":
        return [("cancel",)]
    if d == "labeled_stmt":
        return [("other", "label")]
    # an expression statement
    return [("expr", lark_expr(n))]


# ------------------------------------------------------------------------------------------ from the reference AST

def ast_expr(e):
    k = e[0]
    if k == "paren":
        return ast_expr(e[1])
    if k == "num":
        return ("num", e[3])
    if k == "opnd":
        o = e[1]
        kind = {"reg": "newreg" if o.new else "reg", "nreg": "newreg", "expl": "expl", "alias": "alias", "pc": "alias",
                "imm": "imm"}[o.kind]
        return (kind, o.text)
    if k == "var":
        return ("id", e[1])
    if k == "un":
        return ("un", e[1], ast_expr(e[2]))
    if k == "bin":
        return ("bin", e[1], ast_expr(e[2]), ast_expr(e[3]))
    if k == "cast":
        t = e[1]
        return ("cast", tname(t) if isinstance(t[0], bool) else str(t[1]), ast_expr(e[2]))
    if k == "cond":
        return ("cond", ast_expr(e[1]), ast_expr(e[2]), ast_expr(e[3]))
    if k == "assign":
        return ("assign", e[1], ast_expr(e[2]), ast_expr(e[3]))
    if k in ("post", "pre"):
        return (k, e[1], ast_expr(e[2]))
    if k == "call":
        return ("call", e[1]) + tuple(ast_expr(a) for a in e[2])
    if k == "load":
        return ("load", "s" if e[1] else "u", str(e[2]), ast_expr(e[3]))
    if k == "stmtexpr":
        items = []
        for s in e[1]:
            items.extend(ast_stmts(s))
        return ("stmtexpr", tuple(items), ast_expr(e[2]))
    if k == "sizeof":
        return ("sizeof", ast_expr(e[1]))
    if k == "comma":
        return ("comma", ast_expr(e[1]), ast_expr(e[2]))
    if k == "str":
        return ("tok", e[1])
    return ("other", k)


def ast_stmts(s):
    k = s[0]
    if k == "empty":
        return []
    if k == "block":
        out = []
        for x in s[1]:
            out.extend(ast_stmts(x))
        return out
    if k == "multidecl":
        out = []
        for x in s[1]:
            out.extend(ast_stmts(x))
        return out
    if k == "decl":
        t = s[1]
        ty = ("const " if s[4] else "") + (tname(t) if isinstance(t[0], bool) else str(t[1]))
        return [("decl", ty, s[2], None if s[3] is None else ast_expr(s[3]))]
    if k == "expr":
        return [("expr", ast_expr(s[1]))]
    if k == "if":
        return [("if", ast_expr(s[1]), tuple(ast_stmts(s[2])), None if s[3] is None else tuple(ast_stmts(s[3])))]
    if k == "for":
        init = ast_stmts(s[1]) if s[1] is not None else []
        return [("for", tuple(init), None if s[2] is None else ast_expr(s[2]), None if s[3] is None else ast_expr(s[3]),
                 tuple(ast_stmts(s[4])))]
    if k == "store":
        return [("store", "s" if s[1] else "u", str(s[2]), ast_expr(s[3]), ast_expr(s[4]))]
    if k == "jump":
        return [("jump", ast_expr(s[1]))]
    if k == "return":
        return [("return", None if s[1] is None else ast_expr(s[1]))]
    if k == "cancel":
        return [("cancel",)]
    if k == "nop":
        return [("nop",)]
    return [("other", k)]


def canon_lark(tree):
    return tuple(_unwrap(lark_stmts(tree)))


def canon_ast(stmts):
    out = []
    for s in stmts:
        out.extend(ast_stmts(s))
    return tuple(_unwrap(out))


def _unwrap(stmts):
    """an expression statement that only wraps an assignment etc. is kept as ('expr', e) on both sides"""
    return stmts


def first_difference(a, b, path="root"):
    """human readable location of the first structural difference"""
    if type(a) != type(b):
        return f"{path}: {a!r} vs {b!r}"
    if isinstance(a, tuple):
        if len(a) != len(b):
            return f"{path}: arity {len(a)} vs {len(b)}: {str(a)[:120]} vs {str(b)[:120]}"
        for i, (x, y) in enumerate(zip(a, b)):
            d = first_difference(x, y, f"{path}/{a[0] if a and isinstance(a[0], str) else ''}[{i}]")
            if d:
                return d
        return None
    return None if a == b else f"{path}: {a!r} vs {b!r}"
