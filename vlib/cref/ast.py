"""AST of the shortcode dialect, shared by the reference parser, the evaluator, the generators and the printer.

Expressions (tuples):
  ('num', value, (signed,width), text)       integer literal with its C11 type
  ('opnd', Operand)                          register / immediate operand token
  ('var', name)
  ('un', op, e)            op in + - ~ !
  ('bin', op, a, b)
  ('cast', ctype, e)       ctype = (signed, width)
  ('cond', c, a, b)
  ('assign', op, lhs, rhs) op in = += -= *= /= %= <<= >>= &= ^= |=
  ('post', '++'|'--', lv)  ('pre', '++'|'--', lv)
  ('call', name, [args])   args may be ('enum', name) for bare identifiers that are not variables
  ('load', signed, bits, addr)
  ('stmtexpr', [stmts], e)
  ('sizeof', e) | ('sizeoft', ctype)
  ('comma', a, b) ('index', a, i) ('member', a, f, arrow) ('deref', e) ('addrof', e) ('str', s)  -- unsupported
Statements:
  ('decl', ctype, name, init|None, const)    ('expr', e)   ('empty',)   ('block', [stmts])
  ('if', c, then, else|None)   ('for', init_stmt|None, cond|None, step|None, body)
  ('store', signed, bits, addr, val)   ('jump', e)   ('return', e|None)   ('cancel',)  ('nop',)
  ('while', c, body) ('do', body, c) ('switch', e, body) ('break',) ('continue',) ('goto', l)
  ('label', l, stmt) ('case', e, stmt) ('default', stmt)                                    -- unsupported
"""
import re
from dataclasses import dataclass

UNSUPPORTED_STMT = {"while", "do", "switch", "break", "continue", "goto", "label", "case", "default"}
UNSUPPORTED_EXPR = {"comma", "index", "member", "deref", "addrof", "str", "pre", "unsupported"}

ALIAS_64 = {"UPCYCLE", "PKTCOUNT", "UTIMER"}

REG_RE = re.compile(r"^([CNPRMQVO])(ss|tt|uu|vv|dd|xx|yy|[stuvwdexyz])([VN])$")
IMM_RE = re.compile(r"^([rRsSuUmn])iV$")
EXPL_RE = re.compile(r"^([RCPVQMGS])(\d{1,2})(?::(\d{1,2}))?(_NEW)?$")
ALIAS_RE = re.compile(r"^HEX_REG_ALIAS_([A-Z0-9]+?)(_NEW)?$")

CLASS_OF = {"R": "INT_REGS", "N": "INT_REGS", "P": "PRED_REGS", "V": "HVX_VR", "Q": "HVX_QR", "G": "GUEST_REGS",
            "S": "SYS_REGS", "M": "MOD_REGS", "C": "CTR_REGS"}
WIDTH_OF = {"R": 32, "C": 32, "M": 32, "N": 32, "P": 8, "V": 1024, "Q": 128}


@dataclass(frozen=True)
class Operand:
    text: str        # spelling in the C text
    kind: str        # 'reg' | 'expl' | 'alias' | 'imm' | 'nreg' | 'pc'
    slot: str        # machine slot ('isa:s', 'expl:PRED_REGS:0', 'alias:SP', 'nreg:s', 'imm:s')
    signed: bool
    width: int
    new: bool = False
    access: str = "r"   # 'r' source letter, 'w' destination letter, 'rw' x/y/z, '?' explicit/alias


def classify(tok):
    """Operand token -> Operand or None (plain identifier). Independent of the repository's grammar."""
    m = REG_RE.match(tok)
    if m:
        cls, letters, vn = m.groups()
        if cls == "O":
            return None
        pair = len(letters) == 2
        w = WIDTH_OF[cls] * (2 if pair else 1)
        acc = "r" if letters[0] in "stuvw" else "w" if letters[0] in "de" else "rw"
        new = vn == "N"
        if cls == "N":
            return Operand(tok, "nreg", "nreg:" + letters[0], True, w, True, acc)
        return Operand(tok, "reg", "isa:" + letters[0], True, w, new, acc)
    m = IMM_RE.match(tok)
    if m:
        return Operand(tok, "imm", "imm:" + m.group(1), m.group(1) in "rRsS", 32, False, "r")
    m = ALIAS_RE.match(tok)
    if m:
        name, new = m.groups()
        if name == "PC" and not new:
            return Operand(tok, "pc", "alias:PC", False, 32, False, "r")
        return Operand(tok, "alias", "alias:" + name, False, 64 if name in ALIAS_64 else 32, bool(new), "?")
    m = EXPL_RE.match(tok)
    if m:
        cls, n1, n2, new = m.groups()
        if cls not in WIDTH_OF:
            return None
        num = int(n1) if n2 is None else min(int(n1), int(n2))
        pair = n2 is not None
        rc = CLASS_OF[cls]
        if pair:
            rc = "DOUBLE_REGS" if cls == "R" else "HVX_WR" if cls == "V" else rc + "64"
        return Operand(tok, "expl", f"expl:{rc}:{num}", True, WIDTH_OF[cls] * (2 if pair else 1), bool(new), "?")
    return None


def tname(t):
    return f"{'int' if t[0] else 'uint'}{t[1]}_t"
