"""Printer: AST -> C text. `full=True` parenthesises every compound sub-expression (used by the semantic
checks so that a parsing problem cannot masquerade as a code-generation problem); `full=False` prints with
the minimal parentheses C precedence requires (used by C17)."""
from .ast import tname

PREC = {"||": 1, "&&": 2, "|": 3, "^": 4, "&": 5, "==": 6, "!=": 6, "<": 7, ">": 7, "<=": 7, ">=": 7,
        "<<": 8, ">>": 8, "+": 9, "-": 9, "*": 10, "/": 10, "%": 10}
P_ASSIGN, P_COND, P_CAST, P_UNARY, P_POSTFIX = -1, 0, 11, 12, 13


def type_text(t, style=0):
    if style == 1 and t == (True, 32):
        return "int"
    if style == 1 and t == (False, 32):
        return "unsigned int"
    if style == 2 and t[1] in (8, 16, 32, 64):
        return f"size{t[1] // 8}{'s' if t[0] else 'u'}_t"
    return tname(t)


def expr(e, full=True, ctx=-2):
    """returns text; ctx = precedence level required by the context (minimal mode)"""
    s, p = _expr(e, full)
    if full:
        return s
    return f"({s})" if p < ctx else s


def _wrap(sub, full, need):
    s, p = _expr(sub, full)
    if full:
        return s if p >= P_POSTFIX else f"({s})"
    return f"({s})" if p < need else s


def _expr(e, full):
    k = e[0]
    if k == "num":
        return e[3], P_POSTFIX
    if k == "opnd":
        return e[1].text, P_POSTFIX
    if k in ("var", "enum"):
        return e[1], P_POSTFIX
    if k == "paren":
        return f"({_expr(e[1], full)[0]})", P_POSTFIX
    if k == "un":
        inner = _wrap(e[2], full, P_CAST)
        if e[1] in "+-" and inner[:1] == e[1]:
            inner = " " + inner
        return f"{e[1]}{inner}", P_UNARY
    if k == "bin":
        op = e[1]
        p = PREC[op]
        a = _wrap(e[2], full, p)
        b = _wrap(e[3], full, p + 1)
        return f"{a} {op} {b}", p
    if k == "cast":
        return f"({type_text(e[1])}){_wrap(e[2], full, P_CAST)}", P_CAST
    if k == "cond":
        c = _wrap(e[1], full, 1)
        a = _expr(e[2], full)[0] if not full else _wrap(e[2], full, 0)
        b = _wrap(e[3], full, P_COND)
        return f"{c} ? {a} : {b}", P_COND
    if k == "assign":
        l = _wrap(e[2], full, P_UNARY)
        r = _expr(e[3], full)[0] if not full or e[3][0] in ("num", "opnd", "var") else _wrap(e[3], full, P_ASSIGN)
        return f"{l} {e[1]} {r}", P_ASSIGN
    if k == "post":
        return f"{_wrap(e[2], full, P_POSTFIX)}{e[1]}", P_POSTFIX
    if k == "pre":
        return f"{e[1]}{_wrap(e[2], full, P_UNARY)}", P_UNARY
    if k == "call":
        return f"{e[1]}({', '.join(_expr(a, full)[0] for a in e[2])})", P_POSTFIX
    if k == "load":
        return f"mem_load_{'s' if e[1] else 'u'}{e[2]}({_expr(e[3], full)[0]})", P_POSTFIX
    if k == "stmtexpr":
        inner = " ".join(stmt(s, full) for s in e[1])
        return f"({{ {inner} {_expr(e[2], full)[0]}; }})", P_POSTFIX
    if k == "sizeof":
        return f"sizeof({_expr(e[1], full)[0]})", P_UNARY
    if k == "sizeoft":
        return f"sizeof({type_text(e[1])})", P_UNARY
    if k == "comma":
        return f"{_expr(e[1], full)[0]}, {_expr(e[2], full)[0]}", -2
    if k == "index":
        return f"{_wrap(e[1], full, P_POSTFIX)}[{_expr(e[2], full)[0]}]", P_POSTFIX
    if k == "member":
        return f"{_wrap(e[1], full, P_POSTFIX)}{'->' if e[3] else '.'}{e[2]}", P_POSTFIX
    if k == "deref":
        return f"*{_wrap(e[1], full, P_CAST)}", P_UNARY
    if k == "addrof":
        return f"&{_wrap(e[1], full, P_CAST)}", P_UNARY
    if k == "str":
        return e[1], P_POSTFIX
    if k == "raw":
        return e[1], -2
    raise ValueError(f"cannot print {e!r}")


def stmt(s, full=True):
    k = s[0]
    if k == "decl":
        _, ty, name, init, const = s
        t = ("const " if const else "") + type_text(ty)
        if init is None:
            return f"{t} {name};"
        return f"{t} {name} = {expr(init, full, P_ASSIGN)};"
    if k == "expr":
        return expr(s[1], full) + ";"
    if k == "empty":
        return ";"
    if k == "block":
        return "{ " + " ".join(stmt(x, full) for x in s[1]) + " }"
    if k == "if":
        r = f"if ({expr(s[1], full)}) {stmt(s[2], full)}"
        if s[3] is not None:
            r += f" else {stmt(s[3], full)}"
        return r
    if k == "for":
        _, init, cond, step, body = s
        i = stmt(init, full) if init is not None else ";"
        c = expr(cond, full) if cond is not None else ""
        st = expr(step, full) if step is not None else ""
        return f"for ({i} {c}; {st}) {stmt(body, full)}"
    if k == "store":
        return f"mem_store_{'s' if s[1] else 'u'}{s[2]}({expr(s[3], full, P_ASSIGN)}, {expr(s[4], full, P_ASSIGN)});"
    if k == "jump":
        return f"JUMP({expr(s[1], full)});"
    if k == "return":
        return "return;" if s[1] is None else f"return {expr(s[1], full)};"
    if k == "cancel":
        return "cancel_slot;"
    if k == "nop":
        return "__NOP"
    if k == "while":
        return f"while ({expr(s[1], full)}) {stmt(s[2], full)}"
    if k == "do":
        return f"do {stmt(s[1], full)} while ({expr(s[2], full)});"
    if k == "switch":
        return f"switch ({expr(s[1], full)}) {stmt(s[2], full)}"
    if k in ("break", "continue"):
        return k + ";"
    if k == "goto":
        return f"goto {s[1]};"
    if k == "label":
        return f"{s[1]}: {stmt(s[2], full)}"
    if k == "case":
        return f"case {expr(s[1], full)}: {stmt(s[2], full)}"
    if k == "default":
        return f"default: {stmt(s[1], full)}"
    if k == "raw":
        return s[1]
    raise ValueError(f"cannot print statement {s!r}")


def program(stmts, full=True):
    return "{ " + " ".join(stmt(s, full) for s in stmts) + " }"
