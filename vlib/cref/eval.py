"""Reference evaluator: C11 integer semantics (LP64: int=32, long=64) with QEMU's conventions
(-fwrapv wrap-around, arithmetic >> of signed values) over vlib.machine.Machine.

Values are (ctype, n) with ctype=(signed,width) and n the mathematical value in range of the type.
Undefined behaviour raises machine.UB (the case is discarded, never judged).
"""
from ..machine import UB, Unmodelled, Inconclusive, mask, sx, regfield, extract, sextract, deposit, bswap
from .ast import UNSUPPORTED_STMT, UNSUPPORTED_EXPR

INT = (True, 32)
UINT = (False, 32)
SIZE_T = (False, 64)
LOOP_BOUND = 100_000


class NotInDialect(Exception):
    """The program uses a construct the dialect does not support (the compiler is expected to reject it)."""


def wrap(n, t):
    s, w = t
    n &= mask(w)
    return sx(n, w) if s else n


def promote(t):
    return INT if t[1] < 32 else t


def common(a, b):
    a, b = promote(a), promote(b)
    if a == b:
        return a
    if a[0] == b[0]:
        return a if a[1] >= b[1] else b
    u, s = (a, b) if not a[0] else (b, a)
    if u[1] >= s[1]:
        return u
    return s


class _Return(Exception):
    def __init__(self, v):
        self.v = v


# name -> (return type, [param types])  -- QEMU bitops.h / bswap.h prototypes
INTRINSIC_SIG = {
    "extract32": (UINT, [UINT, INT, INT]),
    "extract64": ((False, 64), [(False, 64), INT, INT]),
    "sextract64": ((True, 64), [(False, 64), INT, INT]),
    "deposit32": (UINT, [UINT, INT, INT, UINT]),
    "deposit64": ((False, 64), [(False, 64), INT, INT, (False, 64)]),
    "bswap16": ((False, 16), [(False, 16)]),
    "bswap32": (UINT, [UINT]),
    "bswap64": ((False, 64), [(False, 64)]),
}


class SubDef:
    """A sub-routine known to the reference: C source parsed by the reference parser."""

    def __init__(self, name, ret, params, body):
        self.name = name
        self.ret = ret              # ctype or None for void
        self.params = params        # list of (kind, ctype|None, name): kind 'val' | 'regref' | 'ext'
        self.body = body            # list of statements


class CEval:
    def __init__(self, machine, subs=None, sizeof_type=SIZE_T):
        self.m = machine
        self.subs = subs or {}
        self.vars = {}        # name -> [ctype, value|None, const]
        self.imms = {}        # letter -> value (immediates behave like initialised locals)
        self.jump = [False, None]
        self.sizeof_type = sizeof_type
        self.steps = 0
        self.branches = []    # (node id, outcome) for coverage bookkeeping
        self.hybrid_evals = 0
        self.regref = {}      # inside a sub-routine: operand text -> caller Operand

    # ------------------------------------------------------------------ programs
    def run(self, stmts):
        for s in stmts:
            self.stmt(s)

    def outcome(self):
        return self.m.outcome(list(self.jump))

    # ------------------------------------------------------------------ statements
    def _push_scope(self):
        if not hasattr(self, "scope_stack"):
            self.scope_stack = []
        self.scope_stack.append({})

    def _pop_scope(self):
        frame = self.scope_stack.pop()
        for name, saved in frame.items():
            if saved is None:
                self.vars.pop(name, None)
            else:
                self.vars[name] = saved

    def stmt(self, s):
        k = s[0]
        self.steps += 1
        if self.steps > 2_000_000:
            raise Inconclusive("step bound")
        if k == "expr":
            self.ev(s[1])
        elif k == "empty" or k == "cancel" or k == "nop":
            pass
        elif k == "block":
            self._push_scope()
            try:
                for x in s[1]:
                    self.stmt(x)
            finally:
                self._pop_scope()
        elif k == "multidecl":
            for x in s[1]:
                self.stmt(x)
        elif k == "decl":
            _, ty, name, init, const = s
            if not isinstance(ty[0], bool):
                raise Unmodelled(f"type {ty[1]}")
            if init is not None:
                v = self.conv(self.ev(init), ty)[1]
            else:
                # a re-declaration without initialiser keeps nothing in C; flat scope: value becomes indeterminate
                v = None
            if getattr(self, "scope_stack", None):
                frame = self.scope_stack[-1]
                if name not in frame:
                    # C block scope: the declaration hides an outer variable of the same name until the block ends
                    old = self.vars.get(name)
                    frame[name] = list(old) if old is not None else None
            self.vars[name] = [ty, v, const]
        elif k == "if":
            c = self.truth(self.ev(s[1]))
            self.branches.append((id(s), c))
            if c:
                self.stmt(s[2])
            elif s[3] is not None:
                self.stmt(s[3])
        elif k == "for":
            _, init, cond, step, body = s
            if init is not None and init[0] == "decl":
                # for (T i = ...; ...) opens a scope of its own
                self._push_scope()
                try:
                    self.stmt(init)
                    self.stmt(("for", None, cond, step, body))
                finally:
                    self._pop_scope()
                return
            if init is not None:
                self.stmt(init)
            n = 0
            while True:
                if cond is not None:
                    c = self.truth(self.ev(cond))
                    if not c:
                        break
                self.stmt(body)
                if step is not None:
                    self.ev(step)
                n += 1
                if n > LOOP_BOUND:
                    raise Inconclusive("loop bound")
            self.branches.append((id(s), min(n, 9)))
        elif k == "store":
            _, sg, bits, a, v = s
            addr = self.conv(self.ev(a), UINT)[1]
            val = self.conv(self.ev(v), (sg, bits))[1]
            self.m.store(addr, bits // 8, val & mask(bits))
        elif k == "jump":
            tgt = self.conv(self.ev(s[1]), UINT)[1]
            self.jump = [True, tgt]
        elif k == "return":
            raise _Return(None if s[1] is None else self.ev(s[1]))
        elif k in UNSUPPORTED_STMT:
            raise NotInDialect(k)
        else:
            raise NotInDialect(f"statement {k}")

    # ------------------------------------------------------------------ helpers
    def conv(self, v, t):
        if v is None or not isinstance(v[0][0], bool):
            raise NotInDialect("value of void/external expression used")
        return (t, wrap(v[1], t))

    def truth(self, v):
        if v is None or not isinstance(v[0][0], bool):
            raise NotInDialect("value of void/external expression used")
        return v[1] != 0

    def declare_implicit(self, name):
        if name == "EA" or name in ("i", "j", "k"):
            self.vars[name] = [UINT, None, False]
            return True
        return False

    def read_var(self, name):
        if name not in self.vars and not self.declare_implicit(name):
            raise NotInDialect(f"undeclared identifier {name}")
        ty, v, _ = self.vars[name]
        if v is None:
            raise UB(f"read of uninitialised {name}")
        return (ty, v)

    def opnd(self, o):
        return self.regref.get(o.text, o)

    def read_opnd(self, o):
        o = self.opnd(o)
        t = (o.signed, o.width)
        if o.kind == "imm":
            letter = o.slot[4:]
            if letter not in self.imms:
                self.imms[letter] = wrap(self.m.imm(letter), t)
            return (t, self.imms[letter])
        if o.kind == "pc":
            return (t, self.m.pc)
        if o.width > 64:
            raise Unmodelled("HVX register")
        if self.m.is_written(o.slot):
            w, v = self.m.read_latest(o.slot)
        elif o.new:
            w, v = self.m.read_newbank(o.slot)
        else:
            w, v = self.m.read_committed(o.slot)
        if w != o.width:
            raise Unmodelled(f"state width {w} != operand width {o.width} for {o.text}")
        return (t, wrap(v, t))

    def lv_type(self, lv):
        if lv[0] == "paren":
            return self.lv_type(lv[1])
        if lv[0] == "var":
            if lv[1] not in self.vars and not self.declare_implicit(lv[1]):
                raise NotInDialect(f"undeclared identifier {lv[1]}")
            return self.vars[lv[1]][0]
        if lv[0] == "opnd":
            o = self.opnd(lv[1])
            return (o.signed, o.width)
        raise NotInDialect("not an lvalue")

    def write_lv(self, lv, v):
        if lv[0] == "paren":
            return self.write_lv(lv[1], v)
        t = self.lv_type(lv)
        v = self.conv(v, t)
        if lv[0] == "var":
            ent = self.vars[lv[1]]
            if ent[2]:
                raise NotInDialect("assignment to const")
            ent[1] = v[1]
        else:
            o = self.opnd(lv[1])
            if o.kind == "imm":
                self.read_opnd(o)
                self.imms[o.slot[4:]] = v[1]
            elif o.kind == "pc":
                raise NotInDialect("assignment to PC alias")
            else:
                if o.width > 64:
                    raise Unmodelled("HVX register")
                self.m.write_reg(o.slot, o.width, v[1] & mask(o.width))
        return v

    def read_lv(self, lv):
        if lv[0] == "paren":
            return self.read_lv(lv[1])
        if lv[0] == "var":
            return self.read_var(lv[1])
        if lv[0] == "opnd":
            return self.read_opnd(lv[1])
        raise NotInDialect("not an lvalue")

    # ------------------------------------------------------------------ expressions
    def ev(self, e):
        k = e[0]
        if k == "paren":
            return self.ev(e[1])
        if k == "num":
            return (e[2], e[1])
        if k == "opnd":
            return self.read_opnd(e[1])
        if k == "var":
            return self.read_var(e[1])
        if k == "cast":
            if not isinstance(e[1][0], bool):
                raise Unmodelled(f"type {e[1][1]}")
            return self.conv(self.ev(e[2]), e[1])
        if k == "un":
            op = e[1]
            v = self.ev(e[2])
            if v is None or not isinstance(v[0][0], bool):
                raise NotInDialect("value of void/external expression used")
            if op == "!":
                return (INT, int(v[1] == 0))
            t = promote(v[0])
            if op == "+":
                return self.conv(v, t)
            if op == "-":
                return (t, wrap(-v[1], t))
            if op == "~":
                return (t, wrap(~wrap(v[1], t), t))
        if k == "bin":
            return self.binop(e[1], e[2], e[3])
        if k == "cond":
            c = self.truth(self.ev(e[1]))
            self.branches.append((id(e), c))
            ta, tb = self.static_type(e[2]), self.static_type(e[3])
            v = self.ev(e[2] if c else e[3])
            if ta is None or tb is None:
                return v
            return self.conv(v, common(ta, tb))
        if k == "assign":
            op, lhs, rhs = e[1], e[2], e[3]
            if op == "=":
                v = self.ev(rhs)
                return self.write_lv(lhs, v)
            cur = self.read_lv(lhs)
            r = self.ev(rhs)
            res = self.arith(op[:-1], cur, r)
            return self.write_lv(lhs, res)
        if k == "post":
            cur = self.read_lv(e[2])
            one = (INT, 1)
            res = self.arith("+" if e[1] == "++" else "-", cur, one)
            self.write_lv(e[2], res)
            self.hybrid_evals += 1
            return cur
        if k == "load":
            _, sg, bits, a = e
            addr = self.conv(self.ev(a), UINT)[1]
            v = self.m.load(addr, bits // 8)
            return ((sg, bits), wrap(v, (sg, bits)))
        if k == "stmtexpr":
            self._push_scope()
            try:
                for s in e[1]:
                    self.stmt(s)
                self.hybrid_evals += 1
                return self.ev(e[2])
            finally:
                self._pop_scope()
        if k == "sizeof":
            t = self.static_type(e[1])
            if t is None:
                raise Unmodelled("sizeof of untyped expression")
            return (self.sizeof_type, t[1] // 8)
        if k == "sizeoft":
            if not isinstance(e[1][0], bool):
                raise Unmodelled("sizeof type")
            return (self.sizeof_type, e[1][1] // 8)
        if k == "call":
            return self.call(e[1], e[2])
        if k in UNSUPPORTED_EXPR:
            raise NotInDialect(k)
        raise NotInDialect(f"expression {k}")

    def binop(self, op, a, b):
        if op == "&&":
            x = self.ev(a)
            if not self.truth(x):
                return (INT, 0)
            return (INT, int(self.truth(self.ev(b))))
        if op == "||":
            x = self.ev(a)
            if self.truth(x):
                return (INT, 1)
            return (INT, int(self.truth(self.ev(b))))
        x = self.ev(a)
        y = self.ev(b)
        return self.arith(op, x, y)

    def arith(self, op, x, y):
        if x is None or y is None or not isinstance(x[0][0], bool) or not isinstance(y[0][0], bool):
            raise NotInDialect("value of void/external expression used")
        if op in ("<<", ">>"):
            t = promote(x[0])
            n = y[1]
            if n < 0 or n >= t[1]:
                raise UB("shift count")
            xv = wrap(x[1], t)
            if op == "<<":
                return (t, wrap(xv << n, t))
            return (t, wrap(xv >> n, t))
        t = common(x[0], y[0])
        a, b = wrap(x[1], t), wrap(y[1], t)
        if op in ("<", ">", "<=", ">=", "==", "!="):
            r = {"<": a < b, ">": a > b, "<=": a <= b, ">=": a >= b, "==": a == b, "!=": a != b}[op]
            return (INT, int(r))
        if op == "+":
            return (t, wrap(a + b, t))
        if op == "-":
            return (t, wrap(a - b, t))
        if op == "*":
            return (t, wrap(a * b, t))
        if op == "&":
            return (t, wrap(a & b, t))
        if op == "|":
            return (t, wrap(a | b, t))
        if op == "^":
            return (t, wrap(a ^ b, t))
        if op in ("/", "%"):
            if b == 0:
                raise UB("division by zero")
            if t[0] and a == -(1 << (t[1] - 1)) and b == -1:
                raise UB("INT_MIN / -1")
            q = abs(a) // abs(b)
            if (a < 0) != (b < 0):
                q = -q
            if op == "/":
                return (t, wrap(q, t))
            return (t, wrap(a - q * b, t))
        raise NotInDialect(f"operator {op}")

    # ------------------------------------------------------------------ static types (for ?: and sizeof)
    def static_type(self, e):
        k = e[0]
        if k == "paren":
            return self.static_type(e[1])
        if k == "num":
            return e[2]
        if k == "opnd":
            o = self.opnd(e[1])
            return (o.signed, o.width)
        if k == "var":
            if e[1] not in self.vars and not self.declare_implicit(e[1]):
                return None
            return self.vars[e[1]][0]
        if k == "cast":
            return e[1] if isinstance(e[1][0], bool) else None
        if k == "un":
            if e[1] == "!":
                return INT
            t = self.static_type(e[2])
            return None if t is None else promote(t)
        if k == "bin":
            op = e[1]
            if op in ("<", ">", "<=", ">=", "==", "!=", "&&", "||"):
                return INT
            ta = self.static_type(e[2])
            if op in ("<<", ">>"):
                return None if ta is None else promote(ta)
            tb = self.static_type(e[3])
            if ta is None or tb is None:
                return None
            return common(ta, tb)
        if k == "cond":
            ta, tb = self.static_type(e[2]), self.static_type(e[3])
            if ta is None or tb is None:
                return None
            return common(ta, tb)
        if k == "assign":
            try:
                return self.lv_type(e[2])
            except NotInDialect:
                return None
        if k == "post":
            try:
                return self.lv_type(e[2])
            except NotInDialect:
                return None
        if k == "load":
            return (e[1], e[2])
        if k == "stmtexpr":
            # declarations inside are needed for the type: scan them
            for s in e[1]:
                if s[0] == "decl" and isinstance(s[1][0], bool) and s[2] not in self.vars:
                    self.vars[s[2]] = [s[1], None, s[4]]
            return self.static_type(e[2])
        if k in ("sizeof", "sizeoft"):
            return self.sizeof_type
        if k == "call":
            name = e[1]
            if name in INTRINSIC_SIG:
                return INTRINSIC_SIG[name][0]
            if name in self.subs:
                return self.subs[name].ret
            if name in ("REGFIELD", "get_npc"):
                return UINT
            if name == "get_corresponding_CS":
                return INT
        return None

    # ------------------------------------------------------------------ calls
    def call(self, name, args):
        if name in INTRINSIC_SIG:
            ret, ptypes = INTRINSIC_SIG[name]
            if len(args) != len(ptypes):
                raise NotInDialect(f"{name}: argument count")
            xs = [self.conv(self.ev(a), t)[1] for a, t in zip(args, ptypes)]
            if name == "extract32":
                r = extract(xs[0], xs[1], xs[2], 32)
            elif name == "extract64":
                r = extract(xs[0], xs[1], xs[2], 64)
            elif name == "sextract64":
                r = sextract(xs[0], xs[1], xs[2], 64)
            elif name == "deposit32":
                r = deposit(xs[0], xs[1], xs[2], xs[3] & mask(32), 32)
            elif name == "deposit64":
                r = deposit(xs[0], xs[1], xs[2], xs[3] & mask(64), 64)
            else:
                w = int(name[5:])
                r = bswap(xs[0], w)
            return (ret, wrap(r, ret))
        if name == "REGFIELD":
            return (UINT, regfield(self.enum(args[0]), self.enum(args[1])))
        if name == "get_corresponding_CS":
            o = args[1]
            while o[0] == "paren":
                o = o[1]
            if o[0] != "opnd":
                raise NotInDialect("get_corresponding_CS needs a register operand")
            return (INT, wrap(self.m.cs(self.opnd(o[1]).slot), INT))
        if name == "get_npc":
            return (UINT, self.m.npc)
        if name == "fatal":
            # the compiler deliberately maps fatal() (QEMU's 'cannot happen' abort) to nothing
            raise UB("fatal() reached")
        if name == "STORE_SLOT_CANCELLED":
            self.m.cancel(self.m.slot)
            return None
        if name in self.subs:
            return self.call_sub(self.subs[name], args)
        raise NotInDialect(f"unknown function {name}")

    def enum(self, a):
        while a[0] == "paren":
            a = a[1]
        if a[0] == "var":
            # an external parameter passed through
            if a[1] in self.vars and self.vars[a[1]][0] == "ext":
                return self.vars[a[1]][1]
            return a[1]
        raise NotInDialect("enum constant expected")

    def call_sub(self, sd, args):
        if len(args) != len(sd.params):
            raise NotInDialect(f"{sd.name}: argument count")
        self.hybrid_evals += 1
        new_vars = {}
        regref = {}
        for (kind, ty, pname), a in zip(sd.params, args):
            if kind == "val":
                v = self.conv(self.ev(a), ty)
                new_vars[pname] = [ty, v[1], False]
            elif kind == "regref":
                x = a
                while x[0] == "paren":
                    x = x[1]
                if x[0] != "opnd":
                    raise NotInDialect("register reference expected")
                regref[pname] = self.opnd(x[1])
            else:
                x = a
                while x[0] == "paren":
                    x = x[1]
                if x[0] == "var":
                    new_vars[pname] = ["ext", self.enum(x), False]
                else:
                    new_vars[pname] = ["ext", None, False]
        saved = (self.vars, self.regref, self.imms)
        self.vars, self.regref = new_vars, regref
        ret = None
        try:
            try:
                for s in sd.body:
                    self.stmt(s)
            except _Return as r:
                ret = r.v
        finally:
            self.vars, self.regref, self.imms = saved
        if sd.ret is None:
            return None
        if ret is None:
            raise UB("value of a function that did not return one")
        return self.conv(ret, sd.ret)


def void_guard(v):
    if v is None:
        raise NotInDialect("value of void expression used")
    return v
