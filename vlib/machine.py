"""Machine state shared by the C reference evaluator (cref) and the RzIL interpreter (il.interp).

A *state* is a JSON-able dict:
  regs:  slot -> {"w": width, "old": committed value, "new": new-bank value}   (unsigned patterns)
  imms:  letter -> 32-bit pattern
  pc, npc, slot (instruction slot number), mem_seed, mem (addr -> byte overrides), cs (uint32)
Slots: 'isa:<letter>' | 'expl:<CLASS>:<num>' | 'alias:<NAME>' | 'nreg:<letter>'
The modelling decisions (banks, x registers, ambiguity) are in DESIGN.md section 4.
"""


class Ambiguous(Exception):
    """Outcome depends on plugin internals the model does not fix - case is discarded."""


class Inconclusive(Exception):
    """Budget exhausted (loop bound) - never a violation."""


class Unmodelled(Exception):
    """Construct outside the integer model (float, HVX...)."""


class UnknownSlot(Exception):
    """The IL names an operand slot/class the architectural state does not have."""


def mask(w):
    return (1 << w) - 1


def sx(v, w):
    """unsigned pattern -> signed value"""
    v &= mask(w)
    return v - (1 << w) if v >> (w - 1) else v


def mem_byte(seed, addr):
    x = (addr * 0x9E3779B1 + seed * 0x85EBCA6B + 0x27D4EB2F) & 0xFFFFFFFF
    x ^= x >> 15
    x = (x * 0x2C1B3C6D) & 0xFFFFFFFF
    x ^= x >> 12
    return x & 0xFF


def _fh(name):
    h = 0
    for ch in name:
        h = (h * 131 + ord(ch)) & 0xFFFFFFFF
    return h


def regfield(prop, field):
    """Shared uninterpreted REGFIELD table: a pure function of the two enum names.
    width in 1..4 (some fields have width 0 to exercise the `? :` guard), offset+width <= 32"""
    h = _fh(field)
    width = (h >> 3) % 5
    offset = h % 27
    p = prop.replace("HEX_RF_", "")
    if p == "WIDTH":
        return width
    if p == "OFFSET":
        return offset
    raise Unmodelled(f"REGFIELD property {prop}")


class UB(Exception):
    """C undefined behaviour (or precondition violation of an intrinsic): case is discarded."""


def extract(value, start, length, w):
    if start < 0 or length <= 0 or length > w - start:
        raise UB("extract args")
    return (value >> start) & mask(length)


def sextract(value, start, length, w):
    if start < 0 or length <= 0 or length > w - start:
        raise UB("sextract args")
    v = (value >> start) & mask(length)
    return sx(v, length) & mask(w)


def deposit(value, start, length, field, w):
    if start < 0 or length <= 0 or length > w - start:
        raise UB("deposit args")
    m = mask(length) << start
    return ((value & ~m) | ((field << start) & m)) & mask(w)


def bswap(v, w):
    return int.from_bytes((v & mask(w)).to_bytes(w // 8, "little"), "big")


class Machine:
    def __init__(self, state):
        self.st = state
        self.regs = state["regs"]
        self.written = {}       # slot -> (w, value) latest write
        self.wcount = {}        # slot -> number of writes
        self.mem = dict((int(k), v) for k, v in state.get("mem", {}).items())
        self.mem_written = {}   # addr -> byte
        self.trace = []
        self.cancelled = []
        self.loads = 0

    # ---- registers
    def reg_info(self, slot):
        r = self.regs.get(slot)
        if r is None:
            raise UnknownSlot(slot)
        return r

    def read_committed(self, slot):
        r = self.reg_info(slot)
        self.trace.append(("rr", slot, "old"))
        return r["w"], r["old"]

    def read_newbank(self, slot):
        """new-value bank: this instruction's own write if any, else the bank's initial content"""
        r = self.reg_info(slot)
        self.trace.append(("rr", slot, "new"))
        if slot in self.written:
            return self.written[slot]
        return r["w"], r["new"]

    def read_latest(self, slot):
        """read-your-writes (x registers, and C semantics of any register after it was assigned)"""
        r = self.reg_info(slot)
        self.trace.append(("rr", slot, "latest"))
        if slot in self.written:
            return self.written[slot]
        return r["w"], r["old"]

    def is_written(self, slot):
        return slot in self.written

    def write_reg(self, slot, w, v):
        self.reg_info(slot)
        self.written[slot] = (w, v & mask(w))
        self.wcount[slot] = self.wcount.get(slot, 0) + 1
        self.trace.append(("wr", slot, w, v & mask(w)))

    # ---- immediates etc.
    def imm(self, letter):
        if letter not in self.st["imms"]:
            raise UnknownSlot("imm:" + letter)
        return self.st["imms"][letter] & 0xFFFFFFFF

    @property
    def pc(self):
        return self.st["pc"] & 0xFFFFFFFF

    @property
    def npc(self):
        return self.st["npc"] & 0xFFFFFFFF

    @property
    def slot(self):
        return self.st.get("slot", 0)

    def cs(self, opslot):
        return (self.st.get("cs", 0) ^ _fh(opslot)) & 0xFFFFFFFF

    # ---- memory (little endian, addresses wrap at 2^32)
    def _byte(self, a):
        a &= 0xFFFFFFFF
        if a in self.mem_written:
            return self.mem_written[a]
        if a in self.mem:
            return self.mem[a]
        return mem_byte(self.st.get("mem_seed", 0), a)

    def load(self, addr, nbytes):
        self.loads += 1
        v = 0
        for i in range(nbytes):
            v |= self._byte(addr + i) << (8 * i)
        self.trace.append(("ld", addr & 0xFFFFFFFF, nbytes))
        return v

    def store(self, addr, nbytes, val):
        for i in range(nbytes):
            self.mem_written[(addr + i) & 0xFFFFFFFF] = (val >> (8 * i)) & 0xFF
        self.trace.append(("st", addr & 0xFFFFFFFF, nbytes, val & mask(8 * nbytes)))

    def cancel(self, slot):
        self.cancelled.append(slot)
        self.trace.append(("cancel", slot))

    # ---- result
    def outcome(self, jump):
        """Observable final state: register writes, memory writes, jump record, cancelled slots."""
        return {
            "regs": {k: list(v) for k, v in sorted(self.written.items())},
            "mem": {k: v for k, v in sorted(self.mem_written.items())},
            "jump": jump,
            "cancel": sorted(set(self.cancelled)),
        }

    def effects_trace(self):
        """order-sensitive side-effect trace: register writes, stores, cancels"""
        return [t for t in self.trace if t[0] in ("wr", "st", "cancel")]
