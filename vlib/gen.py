"""Hypothesis strategies producing dialect programs as ASTs (vlib.cref.ast), typed by construction.

`features` is a frozenset of switches; each check passes the set it wants, and each confirmed finding maps
to one switch that is removed while its witness still fails (excluded by construction).
"""
from hypothesis import strategies as st

from .cref.ast import Operand, classify
from .cref.typer import type_of
from .cref.eval import promote, common, INT

INT_TYPES = [(True, 8), (False, 8), (True, 16), (False, 16), (True, 32), (False, 32), (True, 64), (False, 64)]
WIDE_TYPES = [(True, 32), (False, 32), (True, 64), (False, 64)]

ALL_FEATURES = frozenset({
    "narrow",        # 8/16 bit locals and casts
    "shift", "narrow_shift_left",   # shifts; a narrow (8/16 bit or predicate) left operand of <<
    "cmp_value",     # comparison / logical result used as an arithmetic value
    "cmp_narrow",    # comparisons whose operands are narrower than int
    "logical", "cond", "cast", "unary",
    "mem", "jump", "if", "loop", "compound_assign", "compound_assign_narrow",
    "imm", "alias", "explicit", "new", "pred",
    "hyb_inc", "hyb_call", "hyb_stmtexpr", "hyb_unused_stmt", "hyb_in_cond_arm", "hyb_in_logical",
    "big_literal", "suffix_literal", "sizeof", "div",
    "widen_unsigned_from_signed",   # (uint64_t)int8-like conversions
    "logical_mixed",                # plain value and comparison mixed as && / || operands
    "calls_mixed_tmp_width",        # callees whose internal h_tmpN have different widths in one program
    "narrow_cond_arms",             # ?: arms narrower than int
    "const_cond",                   # ?: with a compile-time constant condition (dead arm mentions live operands)
    "const_cmp",                    # comparison of two compile-time constants used as a condition
    "cmp_init",                     # comparison directly as initialiser / assigned value
    "chain_assign",                 # a = b = e / a = b += e with e reading a or b (two distinct objects)
    "unbraced",                     # single-statement if/else arms and loop bodies without braces
    "macro",                        # QEMU bitops macros (extract/sextract/deposit/bswap) as expressions and arguments
})

# frozen feature list used by the static checks C10-C12 (explicit: later additions to ALL_FEATURES do not leak in)
STATIC_FEATURES = frozenset({'cmp_init', 'narrow', 'widen_unsigned_from_signed', 'hyb_unused_stmt', 'explicit', 'hyb_stmtexpr', 'jump', 'const_cmp', 'cmp_narrow', 'imm', 'hyb_inc', 'compound_assign_narrow', 'alias', 'const_cond', 'sizeof', 'hyb_call', 'suffix_literal', 'mem', 'cond', 'logical_mixed', 'if', 'shift', 'unary', 'loop', 'hyb_in_cond_arm', 'compound_assign', 'cast', 'calls_mixed_tmp_width', 'hyb_in_logical', 'narrow_cond_arms', 'cmp_value', 'big_literal', 'pred', 'div', 'narrow_shift_left', 'new', 'logical'})

SAFE_CORE = frozenset({"cond", "cast", "unary", "shift", "if", "loop", "compound_assign", "imm", "mem", "logical", "cmp_init"})


def num(v, ty=None, text=None):
    if ty is None:
        ty = INT if v < (1 << 31) else (True, 64)
    return ("num", v, ty, text if text is not None else str(v))


def lit_small():
    return st.sampled_from([0, 1, 2, 3, 4, 5, 7, 8, 15, 16, 31, 32, 63, 100, 127, 128, 255, 256, 1000, 32767,
                            32768, 65535, 65536, 0x7FFFFFFF]).map(lambda v: num(v))


def lit_any(features):
    opts = [lit_small()]
    if "suffix_literal" in features:
        def mk(v, suf):
            from .cref.parse import literal_type
            txt = (hex(v) if v > 9 else str(v)) + suf
            val, ty = literal_type(hex(v) if v > 9 else str(v), suf)
            return ("num", val, ty, txt)
        opts.append(st.builds(mk, st.sampled_from([0, 1, 5, 0xFF, 0xFFFF, 0x7FFFFFFF]),
                              st.sampled_from(["U", "LL", "ULL", "u", "ll"])))
    return st.one_of(opts)


_SUBS = {}


def default_subs():
    if not _SUBS:
        from . import diff
        _SUBS.update(diff.bundled_subs())
    return _SUBS


class Env:
    """generation context: operands by role, declared locals, feature set, name counter"""

    def __init__(self, features, srcs, dsts, rws, imms, aliases, expl):
        self.features = features
        self.srcs, self.dsts, self.rws, self.imms, self.aliases, self.expl = srcs, dsts, rws, imms, aliases, expl
        self.vars = {}          # name -> ctype (initialised locals readable in expressions)
        self.n = 0
        self.busy = set()       # variables that may not be touched in the current full expression
        self.subs = default_subs()
        self.call_family = ["clz32", "clo32", "revbit32"]

    def fresh(self, prefix="v"):
        self.n += 1
        return f"{prefix}{self.n}"

    def has(self, f):
        return f in self.features


def opnd(text):
    o = classify(text)
    assert o is not None, text
    return o


@st.composite
def env_strategy(draw, features):
    f = features
    s = draw(st.sampled_from(["RsV", "RssV"]))
    t = draw(st.sampled_from(["RtV", "RttV"]))
    srcs = [opnd(s), opnd(t)]
    if "pred" in f:
        srcs.append(opnd(draw(st.sampled_from(["PuV", "PuN"] if "new" in f else ["PuV"]))))
    else:
        srcs.append(opnd("RuV"))
    if "new" in f and draw(st.booleans()):
        srcs.append(opnd(draw(st.sampled_from(["RvN", "NvN"]))))
    else:
        srcs.append(opnd("RvV"))
    dsts = [opnd(draw(st.sampled_from(["RdV", "RddV"] + (["PdV"] if "pred" in f else [])))), opnd("ReV")]
    rws = [opnd(draw(st.sampled_from(["RxV", "RxxV"])))]
    imms = [opnd(x) for x in (["siV", "uiV"] if "imm" in f else [])]
    aliases = [opnd("HEX_REG_ALIAS_" + a) for a in (["SP", "LR", "PC"] if "alias" in f else [])]
    expl = [opnd(x) for x in (["P0", "R31"] if "explicit" in f else [])]
    env = Env(f, srcs, dsts, rws, imms, aliases, expl)
    # callee bodies share the flat local namespace: their h_tmpN have the width of the callee's own hybrids, so
    # callees of different "temporary width" are only mixed when the corresponding finding class is enabled
    fams = [["clz32", "clo32", "revbit32"], ["clz64", "clo64", "revbit64"], ["fbrev", "revbit16"]]
    if "calls_mixed_tmp_width" in f:
        env.call_family = sum(fams, [])
    else:
        env.call_family = draw(st.sampled_from(fams))
    return env


def _types(env):
    return INT_TYPES if env.has("narrow") else WIDE_TYPES


@st.composite
def leaf(draw, env, want_nonconst=False):
    opts = ["src"] if env.srcs else []
    if any(not n.startswith("__") for n in env.vars):
        opts += ["var", "var"]
    if not opts:
        return draw(lit_any(env.features))
    if env.imms:
        opts.append("imm")
    if env.aliases:
        opts.append("alias")
    if not want_nonconst:
        opts.append("lit")
    k = draw(st.sampled_from(opts))
    if k == "src":
        return ("opnd", draw(st.sampled_from(env.srcs)))
    if k == "var":
        names = [n for n in sorted(env.vars) if n not in env.busy and not n.startswith("__")]
        if not names:
            return ("opnd", draw(st.sampled_from(env.srcs)))
        return ("var", draw(st.sampled_from(names)))
    if k == "imm":
        return ("opnd", draw(st.sampled_from(env.imms)))
    if k == "alias":
        return ("opnd", draw(st.sampled_from(env.aliases)))
    return draw(lit_any(env.features))


def _ty(e, env):
    return type_of(e, env.vars, env.subs)


def is_const(e):
    """would the compiler see a pure literal (and fold)?"""
    k = e[0]
    if k in ("num", "sizeof", "sizeoft"):
        return True
    if k == "paren":
        return is_const(e[1])
    if k == "cast":
        return is_const(e[2])   # a cast to the literal's own type is elided by the compiler
    if k == "un":
        return is_const(e[2])
    if k == "bin":
        return is_const(e[2]) and is_const(e[3])
    return False


@st.composite
def expr(draw, env, depth, allow_hybrid=False):
    """an integer-valued expression"""
    if depth <= 0:
        return draw(leaf(env))
    f = env.features
    kinds = ["leaf", "arith", "arith", "bit"]
    for k, feat in (("shift", "shift"), ("cmp", "cmp_value"), ("logic", "cmp_value"), ("cond", "cond"),
                    ("cast", "cast"), ("unary", "unary"), ("load", "mem"), ("sizeof", "sizeof"), ("div", "div")):
        if feat in f:
            kinds.append(k)
    if "const_cond" in f:
        kinds.append("constcond")
    if "macro" in f:
        kinds += ["macro", "macro"]
    if allow_hybrid:
        for k, feat in (("inc", "hyb_inc"), ("call", "hyb_call"), ("stmtexpr", "hyb_stmtexpr")):
            if feat in f:
                kinds += [k, k]
    k = draw(st.sampled_from(kinds))
    sub = lambda d=depth - 1: draw(expr(env, d, allow_hybrid))
    if k == "leaf":
        return draw(leaf(env))
    if k in ("arith", "bit", "div"):
        op = draw(st.sampled_from({"arith": ["+", "-", "*"], "bit": ["&", "|", "^"], "div": ["/", "%"]}[k]))
        a = sub()
        b = sub()
        if is_const(a) and is_const(b):
            a = draw(leaf(env, want_nonconst=True))
        if k == "div":
            b = ("bin", "|", b, num(1))
        return ("bin", op, a, b)
    if k == "shift":
        op = draw(st.sampled_from(["<<", ">>"]))
        a = sub()
        if is_const(a):
            a = draw(leaf(env, want_nonconst=True))
        ta = _ty(a, env)
        if ta[1] < 32 and "narrow_shift_left" not in f:
            a = ("cast", promote(ta), a)
        w = promote(ta)[1]
        if draw(st.booleans()):
            b = num(draw(st.sampled_from([0, 1, 2, 7, 8, 15, 16, 31] + ([32, 33, 47, 63] if w == 64 else []))))
        else:
            b = ("bin", "&", sub(), num(w - 1))
        return ("bin", op, a, b)
    if k == "cmp":
        return draw(cmp_expr(env, depth))
    if k == "logic":
        return draw(logic_expr(env, depth))
    if k == "cond":
        c = draw(condition(env, depth - 1, allow_hybrid=False))
        arm_h = allow_hybrid and "hyb_in_cond_arm" in f
        arm = None
        if allow_hybrid and "hyb_stmtexpr" in f and draw(st.integers(0, 2)) == 0:
            # a statement-expression arm that assigns an existing, already initialised variable (the form the
            # shipped saturation macros use): its statements must run only when the arm is selected
            names = [n for n in sorted(env.vars) if n not in env.busy and not n.startswith("__")
                     and n not in getattr(env, "readonly", ())]
            if names:
                n_ = draw(st.sampled_from(names))
                env.busy.add(n_)
                arm = ("stmtexpr", [("expr", ("assign", "=", ("var", n_), draw(expr(env, depth - 1, False))))],
                       draw(expr(env, max(depth - 2, 0), False)))
        other = draw(expr(env, depth - 1, arm_h))
        if arm is None:
            a, b = other, draw(expr(env, depth - 1, arm_h))
        elif draw(st.booleans()):
            a, b = arm, other
        else:
            a, b = other, arm
        return ("cond", c, a, b)
    if k == "constcond":
        c = draw(st.sampled_from([num(1), num(0), ("bin", "==", num(1), num(1)), ("bin", "<", num(3), num(2))]))
        return ("cond", c, sub(), sub())
    if k == "cast":
        t = draw(st.sampled_from(_types(env)))
        a = sub()
        if "widen_unsigned_from_signed" not in f:
            ta = _ty(a, env)
            if ta[0] and not t[0] and t[1] > ta[1]:
                t = (True, t[1])
        return ("cast", t, a)
    if k == "unary":
        a = sub()
        if is_const(a):
            a = draw(leaf(env, want_nonconst=True))
        return ("un", draw(st.sampled_from(["-", "~"])), a)
    if k == "load":
        sg, bits = draw(st.sampled_from([(True, 8), (False, 8), (True, 16), (False, 16), (True, 32), (False, 32),
                                        (False, 64)]))
        # the corpus always casts a load result (a bare load in arithmetic is rejected by the compiler)
        t = (sg, bits) if draw(st.integers(0, 3)) else draw(st.sampled_from(_types(env)))
        return ("cast", t, ("load", sg, bits, ("cast", (False, 32), sub())))
    if k == "sizeof":
        return ("sizeof", draw(leaf(env, want_nonconst=True)))
    if k == "inc":
        names = [n for n in sorted(env.vars) if n not in env.busy and env.vars[n][1] >= 32 and not n.startswith("__")]
        if not names:
            return draw(leaf(env))
        n = draw(st.sampled_from(names))
        env.busy.add(n)
        return ("post", draw(st.sampled_from(["++", "--"])), ("var", n))
    if k == "macro":
        return draw(macro_call(env, depth))
    if k == "call":
        name = draw(st.sampled_from(env.call_family))
        sd = env.subs.get(name)
        nargs = sum(1 for p_ in sd.params if p_[0] == "val") if sd is not None else 1
        return ("call", name, [sub() for _ in range(nargs)])
    if k == "stmtexpr":
        n = env.fresh("g")
        t = draw(st.sampled_from(WIDE_TYPES))
        init = draw(expr(env, depth - 1, False))
        # the variable is scoped to the statement-expression (C block scope): it is not visible to later code
        res = ("stmtexpr", [("decl", t, n, init, False)], ("var", n))
        return res
    raise AssertionError(k)


@st.composite
def cmp_expr(draw, env, depth, allow_hybrid=False):
    op = draw(st.sampled_from(["<", ">", "<=", ">=", "==", "!="]))
    a = draw(expr(env, depth - 1, allow_hybrid))
    b = draw(expr(env, depth - 1, allow_hybrid))
    if is_const(a) and is_const(b):
        a = draw(leaf(env, want_nonconst=True))
    if "cmp_narrow" not in env.features:
        ta, tb = _ty(a, env), _ty(b, env)
        if ta[1] < 32:
            a = ("cast", promote(ta), a)
        if tb[1] < 32:
            b = ("cast", promote(tb), b)
    return ("bin", op, a, b)


@st.composite
def logic_expr(draw, env, depth):
    k = draw(st.sampled_from(["&&", "||", "!"]))
    if k == "!":
        return ("un", "!", draw(condition(env, depth - 1)))
    return ("bin", k, draw(condition(env, depth - 1)), draw(condition(env, depth - 1)))


@st.composite
def condition(draw, env, depth, allow_hybrid=False):
    """something used where C wants a truth value (if / for / ?: / && operand)"""
    ks = ["cmp", "cmp", "val"]
    if "logical" in env.features and depth > 0:
        ks.append("logic")
    k = draw(st.sampled_from(ks))
    if k == "cmp":
        return draw(cmp_expr(env, max(depth, 1), allow_hybrid))
    if k == "logic":
        return draw(logic_expr(env, depth))
    e = draw(expr(env, max(depth - 1, 0), allow_hybrid))
    if is_const(e):
        e = draw(leaf(env, want_nonconst=True))
    return e


ASSIGN_OPS = ["+=", "-=", "*=", "<<=", ">>=", "&=", "^=", "|="]


@st.composite
def assign_stmt(draw, env, depth, allow_hybrid):
    """assignment to a local / destination register / rw register; may declare a new local"""
    f = env.features
    env.busy = set()
    kinds = ["newvar", "dst", "rw"]
    if any(not n.startswith("__") for n in env.vars):
        kinds += ["var", "var"]
    if env.expl and draw(st.integers(0, 5)) == 0:
        kinds = ["expl"]
    if env.aliases and draw(st.integers(0, 7)) == 0:
        kinds = ["aliasw"]
    k = draw(st.sampled_from(kinds))
    compound = "compound_assign" in f and k in ("var", "rw") and draw(st.integers(0, 2)) == 0
    cmp_rhs = "cmp_init" in f and not compound and draw(st.integers(0, 5)) == 0
    if cmp_rhs:
        # a comparison (or && / || of two comparisons) directly as initialiser / assigned value: bool -> integer
        def rhs_():
            if draw(st.booleans()):
                return draw(cmp_expr(env, 1))
            return ("bin", draw(st.sampled_from(["&&", "||"])), draw(cmp_expr(env, 1)), draw(cmp_expr(env, 1)))
    if k == "newvar":
        t = draw(st.sampled_from(_types(env)))
        e = rhs_() if cmp_rhs else draw(expr(env, depth, allow_hybrid))
        n = env.fresh()
        env.vars[n] = t
        return ("decl", t, n, e, False)
    if k == "var":
        cands = [n for n in sorted(env.vars) if not n.startswith("__")]
        if compound and "compound_assign_narrow" not in f:
            cands = [n for n in cands if env.vars[n][1] >= 32]
        elif compound and any(env.vars[n][1] < 32 for n in cands) and draw(st.booleans()):
            cands = [n for n in cands if env.vars[n][1] < 32]
        if not cands:
            compound = False
            cands = [n for n in sorted(env.vars) if not n.startswith("__")]
        n = draw(st.sampled_from(cands))
        lhs = ("var", n)
        env.busy.add(n) if compound else None
    elif k == "dst":
        lhs = ("opnd", draw(st.sampled_from(env.dsts)))
    elif k == "rw":
        lhs = ("opnd", draw(st.sampled_from(env.rws)))
    elif k == "expl":
        lhs = ("opnd", draw(st.sampled_from(env.expl)))
    else:
        lhs = ("opnd", draw(st.sampled_from([a for a in env.aliases if a.kind != "pc"])))
    if compound:
        op = draw(st.sampled_from(ASSIGN_OPS + (["/=", "%="] if "div" in f else [])))
        if op in ("/=", "%="):
            rhs = ("bin", "|", draw(expr(env, depth - 1, False)), num(1))
        elif op in ("<<=", ">>="):
            w = promote(_ty(lhs, env))[1]
            rhs = ("bin", "&", draw(expr(env, depth - 1, False)), num(min(w, 32) - 1))
        else:
            rhs = draw(expr(env, depth, allow_hybrid))
        return ("expr", ("assign", op, lhs, rhs))
    if "chain_assign" in f and not cmp_rhs and k in ("var", "dst", "rw") and draw(st.integers(0, 2)) == 0:
        # chained assignment to two distinct objects; the right-hand side reads one of them half of the time
        locs = [n for n in sorted(env.vars) if not n.startswith("__") and ("var", n) != lhs]
        inner_c = [("var", n) for n in locs]
        if lhs[0] == "var":
            inner_c += [("opnd", o) for o in env.dsts]
        # read-write registers (Rx): their new value is what the outer assignment receives
        inner_c += [("opnd", o) for o in env.rws if lhs[0] != "opnd" or getattr(lhs[1], "slot", None) != o.slot]
        if inner_c:
            lhs2 = draw(st.sampled_from(inner_c))
            rhs = draw(expr(env, max(depth - 1, 0), False))
            readable = [x for x in (lhs, lhs2) if x[0] == "var"]
            if readable and draw(st.booleans()):
                rhs = ("bin", draw(st.sampled_from(["+", "-", "^"])), draw(st.sampled_from(readable)), rhs)
            op2 = "="
            if "compound_assign" in f and (lhs2[0] == "opnd" and lhs2[1] in env.rws or
                                           lhs2[0] == "var" and env.vars[lhs2[1]][1] >= 32) and draw(st.integers(0, 3)) == 0:
                op2 = draw(st.sampled_from(["+=", "-=", "^=", "|=", "&="]))
            return ("expr", ("assign", "=", lhs, ("assign", op2, lhs2, rhs)))
    return ("expr", ("assign", "=", lhs, rhs_() if cmp_rhs else draw(expr(env, depth, allow_hybrid))))


def _maybe_unbrace(draw, f, blk, then_with_else=False):
    """`{ s; }` -> `s;` for a single statement that C allows without braces (never a declaration; no `if` in front
    of an else: that is the dangling-else shape)"""
    if "unbraced" not in f or blk is None or blk[0] != "block" or len(blk[1]) != 1:
        return blk
    s = blk[1][0]
    if s[0] not in ("expr", "store", "jump", "empty", "if", "for"):
        return blk      # never a declaration
    if then_with_else and s[0] in ("if", "for"):
        # printing `if (a) <if without else> else y` without braces would hand the else to the inner if (C's rule):
        # the text would no longer mean the AST
        return blk
    return s if draw(st.integers(0, 2)) == 0 else blk


@st.composite
def macro_call(draw, env, depth):
    """a QEMU bitops macro invocation with explicitly cast value arguments and literal field positions"""
    name = draw(st.sampled_from(["extract32", "extract64", "sextract64", "deposit32", "deposit64", "bswap16", "bswap32", "bswap64"]))
    sub = lambda: draw(expr(env, max(depth - 1, 0), False))
    if name.startswith("bswap"):
        w = int(name[5:])
        return ("call", name, [("cast", (False, w), sub())])
    w = 32 if name.endswith("32") else 64
    start = draw(st.integers(0, w - 1))
    length = draw(st.integers(1, w - start))
    args = [("cast", (False, w), sub()), num(start), num(length)]
    if name.startswith("deposit"):
        args.append(("cast", (False, w), sub()))
    return ("call", name, args)


@st.composite
def stmt(draw, env, depth, nest):
    f = env.features
    kinds = ["assign"] * 5
    if nest > 0:
        if "if" in f:
            kinds += ["if", "if"]
        if "loop" in f:
            kinds += ["for"]
        kinds += ["block"]
    if "mem" in f:
        kinds += ["store"]
    if "jump" in f:
        kinds += ["jump"]
    if "hyb_unused_stmt" in f and env.vars:
        kinds += ["hyb_stmt"]
    if "hyb_stmtexpr" in f and "cond" in f and any(not n.startswith("__") for n in env.vars):
        kinds += ["condarm", "condarm"]
    if "hyb_inc" in f and "if" in f and nest > 0 and any(
            not n.startswith("__") and env.vars[n][1] >= 32 and n not in getattr(env, "readonly", ()) for n in env.vars):
        kinds += ["hybif", "hybif"]
    kinds += ["empty"]
    k = draw(st.sampled_from(kinds))
    hyb = bool(f & {"hyb_inc", "hyb_call", "hyb_stmtexpr"})
    if k == "assign":
        return draw(assign_stmt(env, depth, hyb))
    if k == "empty":
        return ("empty",)
    if k == "block":
        saved = dict(env.vars)
        inner = draw(stmts(env, depth, nest - 1, 1, 3))
        env.vars = saved      # C block scope: locals of the nested block are not visible afterwards
        return ("block", inner)
    if k == "if":
        env.busy = set()
        c = draw(condition(env, depth, allow_hybrid=hyb and "hyb_inc" in f))
        saved = dict(env.vars)
        th = ("block", draw(stmts(env, depth, nest - 1, 1, 3)))
        el = None
        env.vars = dict(saved)
        if draw(st.booleans()):
            el = ("block", draw(stmts(env, depth, nest - 1, 1, 3)))
            if draw(st.integers(0, 3)) == 0:
                el = el[1][0] if el[1][0][0] == "if" else el
        env.vars = saved      # variables first assigned inside an arm are not readable afterwards
        th = _maybe_unbrace(draw, f, th, then_with_else=el is not None)
        el = _maybe_unbrace(draw, f, el)
        if "unbraced" in f and "hyb_unused_stmt" in f:
            # an arm that is nothing but a value-unused hybrid statement, without braces: if (c) v++; else w--;
            if draw(st.integers(0, 3)) == 0:
                th = _hyb_stmt(draw, env)
            if el is not None and draw(st.integers(0, 3)) == 0:
                el = _hyb_stmt(draw, env)
        return ("if", c, th, el)
    if k == "for":
        cnt = draw(st.sampled_from(["i", "j", "k"]))
        if cnt in env.vars and env.vars.get("__loop_" + cnt):
            cnt = env.fresh("c")
        env.busy = set()
        if draw(st.booleans()):
            bound = num(draw(st.integers(0, 8)))
        else:
            bound = ("bin", "&", draw(leaf(env, want_nonconst=True)), num(7))
        init = ("expr", ("assign", "=", ("var", cnt), num(0)))
        newdecl = cnt not in ("i", "j", "k")
        if newdecl:
            init = ("decl", (False, 32), cnt, num(0), False)
        saved = dict(env.vars)
        env.vars[cnt] = (False, 32)
        env.vars["__loop_" + cnt] = (False, 32)
        body = ("block", draw(stmts(env, depth, nest - 1, 1, 3, protect={cnt})))
        env.vars = saved
        step = draw(st.sampled_from([("post", "++", ("var", cnt)), ("assign", "+=", ("var", cnt), num(1)),
                                     ("assign", "=", ("var", cnt), ("bin", "+", ("var", cnt), num(1)))]))
        cond = ("bin", "<", ("var", cnt), ("cast", (False, 32), bound))
        body = _maybe_unbrace(draw, f, body)
        if "unbraced" in f and "hyb_unused_stmt" in f and draw(st.integers(0, 3)) == 0:
            env.vars = dict(saved)
            env.vars[cnt] = (False, 32)     # the body may read the counter (in scope only inside the loop)
            body = _hyb_stmt(draw, env, protect={cnt}, reads=cnt)
            env.vars = saved
            if draw(st.booleans()):
                step = ("post", "++", ("var", cnt))
        if newdecl:
            return ("block", [init, ("for", None, cond, step, body)]) if False else ("for", init, cond, step, body)
        return ("for", init, cond, step, body)
    if k == "store":
        env.busy = set()
        sg, bits = draw(st.sampled_from([(False, 8), (False, 16), (False, 32), (False, 64), (True, 16)]))
        a = ("cast", (False, 32), draw(expr(env, depth - 1, False)))
        return ("store", sg, bits, a, draw(expr(env, depth, hyb)))
    if k == "jump":
        env.busy = set()
        return ("jump", draw(expr(env, depth - 1, False)))
    if k == "hybif":
        # if (v++ <cmp> e) { ... } [else { ... }] : the branch must see the old value, the arms the new one
        env.busy = set()
        names = [n for n in sorted(env.vars) if not n.startswith("__") and env.vars[n][1] >= 32
                 and n not in getattr(env, "readonly", ())]
        v = draw(st.sampled_from(names))
        env.busy.add(v)
        c = ("bin", draw(st.sampled_from(["<", ">", "<=", ">=", "==", "!="])),
             ("post", draw(st.sampled_from(["++", "--"])), ("var", v)), draw(expr(env, 1, False)))
        env.busy = set()
        saved = dict(env.vars)
        th = ("block", draw(stmts(env, depth, nest - 1, 1, 2)))
        env.vars = dict(saved)
        el = ("block", draw(stmts(env, depth, nest - 1, 1, 2))) if draw(st.integers(0, 2)) else None
        env.vars = saved
        return ("if", c, th, el)
    if k == "condarm":
        # dst = c ? A : ({ v = e; B; })  with arms of different C types (the shape of the shipped saturation macros)
        env.busy = set()
        names = [n for n in sorted(env.vars) if not n.startswith("__") and n not in getattr(env, "readonly", ())]
        v = draw(st.sampled_from(names))
        env.busy.add(v)
        c = draw(cmp_expr(env, 1))
        inner = ("stmtexpr", [("expr", ("assign", "=", ("var", v), draw(expr(env, 1, False))))],
                 ("cast", draw(st.sampled_from(WIDE_TYPES)), draw(leaf(env))))
        other = ("cast", draw(st.sampled_from(WIDE_TYPES)), draw(expr(env, 1, False)))
        a, b = (inner, other) if draw(st.booleans()) else (other, inner)
        dst = ("opnd", draw(st.sampled_from(env.dsts + env.rws)))
        return ("expr", ("assign", "=", dst, ("cond", c, a, b)))
    if k == "hyb_stmt":
        return _hyb_stmt(draw, env)
    raise AssertionError(k)


def _hyb_stmt(draw, env, protect=frozenset(), reads=None):
    """a value-producing operation used as a statement (value unused): v++; v--; ({ v = v + e; v; });
    `reads`: a variable the statement-expression form should read (a loop counter)"""
    f = env.features
    env.busy = set()
    names = [n for n in sorted(env.vars) if env.vars[n][1] >= 32 and not n.startswith("__") and n not in protect
             and n not in getattr(env, "readonly", ())]
    if not names:
        return ("empty",)
    if "hyb_stmtexpr" in f and draw(st.integers(0, 2 if reads is None else 1)) == 0:
        # statement-expression whose value is not used: ({ v = v + e; v; });  (e may read a loop counter)
        v = draw(st.sampled_from(names))
        env.busy.add(v)
        e = draw(expr(env, 1, False))
        if reads is not None and draw(st.integers(0, 3)) > 0:
            e = ("bin", "+", ("bin", "*", ("var", v), num(3)), ("cast", env.vars[v], ("var", reads))) if draw(st.booleans()) else ("cast", env.vars[v], ("var", reads))
        rhs = ("bin", draw(st.sampled_from(["+", "^", "-"])), ("var", v), e)
        return ("expr", ("stmtexpr", [("expr", ("assign", "=", ("var", v), rhs))], ("var", v)))
    return ("expr", ("post", draw(st.sampled_from(["++", "--"])), ("var", draw(st.sampled_from(names)))))


@st.composite
def stmts(draw, env, depth, nest, lo, hi, protect=frozenset()):
    n = draw(st.integers(lo, hi))
    out = []
    for _ in range(n):
        snapshot = dict(env.vars)
        s = draw(stmt(env, depth, nest))
        # loop counters must not be assigned inside the body (keeps trip counts bounded)
        if protect and _assigns(s, protect):
            s = ("empty",)
            env.vars = snapshot
        out.append(s)
    return out


def _assigns(node, names):
    from .cref import walk
    for n in walk(node):
        if n and n[0] in ("assign", "post", "pre") and n[2][0] == "var" and n[2][1] in names:
            return True
        if n and n[0] == "decl" and n[2] in names:
            return True
    return False


@st.composite
def program(draw, features, depth=3, nest=2, lo=1, hi=6):
    """-> (ast, env). The program starts by giving every local it will read a value."""
    env = draw(env_strategy(features))
    pre = []
    if features & {"compound_assign_narrow", "unbraced", "chain_assign"} and draw(st.booleans()):
        # a few locals up front, so that later statements have something to update in place
        for _ in range(draw(st.integers(1, 2))):
            t = draw(st.sampled_from(_types(env)))
            n = env.fresh()
            pre.append(("decl", t, n, draw(expr(env, 1, False)), False))
            env.vars[n] = t
    body = pre + draw(stmts(env, depth, nest, lo, hi))
    body = [s for s in body]
    # observers: the final value of every top-level local becomes visible in memory
    k_ = 0
    for n_, t_ in sorted(env.vars.items()):
        if n_.startswith("__") or n_ in ("i", "j", "k") or t_[1] not in (8, 16, 32, 64):
            continue
        body.append(("store", t_[0], t_[1], num(0x40000000 + 8 * k_), ("var", n_)))
        k_ += 1
    # drop helper marks
    return body, env


# --------------------------------------------------------------------------------------------------------
# Normalisation passes: rewrite a generated program so that it stays outside the classes of listed findings
# (exclusion by construction). Each rewrite is counted by the caller through `stats`.

def _cast_arm(t, arm):
    """cast a ?: arm; a statement-expression arm keeps its shape (the cast goes onto its value)"""
    if arm[0] == "stmtexpr":
        return ("stmtexpr", arm[1], ("cast", t, arm[2]))
    return ("cast", t, arm)


def _su_widen(src, dst):
    """conversion of a signed value to a wider unsigned type (after integer promotion of the source)"""
    return src[0] and not dst[0] and dst[1] > src[1]


def normalize(stmts, features, subs=None, stats=None, vartypes=None):
    vt = {"EA": (False, 32), "i": (False, 32), "j": (False, 32), "k": (False, 32)}
    vt.update(vartypes or {})
    subs = subs or default_subs()
    stats = stats if stats is not None else {}

    def note(k):
        stats[k] = stats.get(k, 0) + 1

    def ty(e):
        return type_of(e, vt, subs)

    def conv(e, dst):
        """e is converted to dst implicitly at this site"""
        if "widen_unsigned_from_signed" not in features:
            t = ty(e)
            if _su_widen(t, dst):
                note("excluded:signed->wider-unsigned conversion (cast via signed inserted)")
                return ("cast", (True, dst[1]), e)
        return e

    def truthy(e):
        """operand of && || ! : keep comparisons/logicals, turn plain values into (v != 0) unless mixing is allowed"""
        if "logical_mixed" in features:
            return e
        if e[0] == "bin" and e[1] in ("<", ">", "<=", ">=", "==", "!=", "&&", "||"):
            return e
        if e[0] == "un" and e[1] == "!":
            return e
        note("excluded:plain value as && / || / ! operand (rewritten to v != 0)")
        z = ("num", 0, (True, 32), "0")
        return ("bin", "!=", ex(("paren", e))[1] if False else e, conv_to_common(z, e))

    def conv_to_common(z, other):
        return z

    def ex(e):
        k = e[0]
        if k in ("num", "opnd", "var"):
            return e
        if k == "paren":
            return ("paren", ex(e[1]))
        if k == "cast":
            inner = ex(e[2])
            if "widen_unsigned_from_signed" not in features and _su_widen(ty(inner), e[1]):
                note("excluded:signed->wider-unsigned conversion (cast via signed inserted)")
                inner = ("cast", (True, e[1][1]), inner)
            return ("cast", e[1], inner)
        if k == "un":
            a = ex(e[2])
            if e[1] == "!":
                return ("un", "!", truthy(a))
            return ("un", e[1], a)
        if k == "bin":
            op = e[1]
            a, b = ex(e[2]), ex(e[3])
            if op in ("&&", "||"):
                a, b = truthy(a), truthy(b)
                a, b = ex_cmp_fix(a), ex_cmp_fix(b)
                return ("bin", op, a, b)
            if op in ("<<", ">>"):
                ta = ty(a)
                if ta[1] < 32 and "narrow_shift_left" not in features:
                    note("excluded:narrow left operand of a shift (promotion cast inserted)")
                    a = ("cast", promote(ta), a)
                return ("bin", op, a, b)
            ta, tb = ty(a), ty(b)
            if op in ("<", ">", "<=", ">=", "==", "!=") and "cmp_narrow" not in features:
                if ta[1] < 32:
                    note("excluded:narrow comparison operand (promotion cast inserted)")
                    a = ("cast", promote(ta), a)
                    ta = promote(ta)
                if tb[1] < 32:
                    note("excluded:narrow comparison operand (promotion cast inserted)")
                    b = ("cast", promote(tb), b)
                    tb = promote(tb)
            t = common(ta, tb)
            a2, b2 = a, b
            if "widen_unsigned_from_signed" not in features:
                if _su_widen(promote(ta), t):
                    note("excluded:signed->wider-unsigned conversion (cast via signed inserted)")
                    a2 = ("cast", (True, t[1]), a)
                if _su_widen(promote(tb), t):
                    note("excluded:signed->wider-unsigned conversion (cast via signed inserted)")
                    b2 = ("cast", (True, t[1]), b)
            return ("bin", op, a2, b2)
        if k == "cond":
            c, a, b = ex(e[1]), ex(e[2]), ex(e[3])
            if "narrow_cond_arms" not in features:
                if ty(a)[1] < 32:
                    note("excluded:narrow ?: arm (promotion cast inserted)")
                    a = _cast_arm(promote(ty(a)), a)
                if ty(b)[1] < 32:
                    note("excluded:narrow ?: arm (promotion cast inserted)")
                    b = _cast_arm(promote(ty(b)), b)
            t = common(ty(a), ty(b))
            if "widen_unsigned_from_signed" not in features:
                if _su_widen(ty(a), t):
                    a = _cast_arm((True, t[1]), a)
                    note("excluded:signed->wider-unsigned conversion (cast via signed inserted)")
                if _su_widen(ty(b), t):
                    b = _cast_arm((True, t[1]), b)
                    note("excluded:signed->wider-unsigned conversion (cast via signed inserted)")
            return ("cond", c, a, b)
        if k == "assign":
            lhs, rhs = e[2], ex(e[3])
            lt = ty(lhs)
            if e[1] in ("=",):
                rhs = conv(rhs, lt)
            elif e[1] not in ("<<=", ">>="):
                t = common(lt, ty(rhs))
                if "widen_unsigned_from_signed" not in features and _su_widen(ty(rhs), t):
                    note("excluded:signed->wider-unsigned conversion (cast via signed inserted)")
                    rhs = ("cast", (True, t[1]), rhs)
                elif "widen_unsigned_from_signed" not in features and e[1] in ("/=", "%=") and _su_widen(lt, t):
                    # division is done in the common type: a signed destination would be converted to wider unsigned
                    note("excluded:signed->wider-unsigned conversion (cast via signed inserted)")
                    rhs = ("cast", (True, t[1]), rhs)
                elif "widen_unsigned_from_signed" not in features and _su_widen(ty(rhs), lt):
                    # the compiler converts the right operand to the (narrow unsigned) target type first: the same
                    # signed->wider-unsigned conversion, although C itself computes in int here
                    note("excluded:signed->wider-unsigned conversion (cast via signed inserted)")
                    rhs = ("cast", (True, lt[1]), rhs)
            return ("assign", e[1], lhs, rhs)
        if k == "post":
            return e
        if k == "load":
            return ("load", e[1], e[2], conv(ex(e[3]), (False, 32)))
        if k == "call":
            args = [ex(a) for a in e[2]]
            sd = subs.get(e[1])
            if sd is not None:
                args = [conv(a, p[1]) if p[0] == "val" else a for a, p in zip(args, sd.params)]
            return ("call", e[1], args)
        if k == "stmtexpr":
            inner = [st_(s) for s in e[1]]
            return ("stmtexpr", inner, ex(e[2]))
        if k == "sizeof":
            return e
        return e

    def ex_cmp_fix(e):
        return e

    def st_(s):
        return st2_(desequence(s, note))

    def st2_(s):
        k = s[0]
        if k == "decl":
            init = s[3]
            if init is not None:
                init = conv(ex(init), s[1])
            vt[s[2]] = s[1]
            return ("decl", s[1], s[2], init, s[4])
        if k == "expr":
            return ("expr", ex(s[1]))
        if k == "block":
            return ("block", [st_(x) for x in s[1]])
        if k == "if":
            return ("if", cond_(s[1]), st_(s[2]), None if s[3] is None else st_(s[3]))
        if k == "for":
            init = None if s[1] is None else st_(s[1])
            return ("for", init, None if s[2] is None else cond_(s[2]), None if s[3] is None else ex(s[3]), st_(s[4]))
        if k == "store":
            return ("store", s[1], s[2], conv(ex(s[3]), (False, 32)), conv(ex(s[4]), (s[1], s[2])))
        if k == "jump":
            return ("jump", conv(ex(s[1]), (False, 32)))
        if k == "return":
            return s if s[1] is None else ("return", ex(s[1]))
        return s

    def cond_(e):
        return ex(e)

    return [st_(s) for s in stmts]


# --------------------------------------------------------------------------------------------------------
# generated sub-routines (C08) -------------------------------------------------------------------------------

class SubSpec:
    def __init__(self, name, ret, params, body):
        self.name, self.ret, self.params, self.body = name, ret, params, body   # params: [(ctype, name)]

    def c_params(self):
        from .cref.show import type_text
        return [f"{type_text(t)} {n}" for t, n in self.params]

    def c_ret(self):
        from .cref.show import type_text
        return type_text(self.ret)

    def c_body(self):
        from .cref import show
        return show.program(self.body)


@st.composite
def subroutine(draw, features, name, earlier=(), prefix_locals=True):
    """a value-returning sub-routine over integer parameters; `earlier` = SubSpecs it may call"""
    f = frozenset(features)
    types = INT_TYPES if "narrow" in f else WIDE_TYPES
    nparams = draw(st.integers(1, 3))
    params = [(draw(st.sampled_from(types)), f"{name}_p{i}" if prefix_locals else f"p{i}") for i in range(nparams)]
    ret = draw(st.sampled_from(types))
    env = Env(f, [], [], [], [], [], [])
    env.vars = {n: t for t, n in params}
    env.readonly = {n for t, n in params}
    env.n = 0
    pre = (name + "_v") if prefix_locals else "v"
    env.fresh = lambda p="v", _e=env, _pre=pre: _bump(_e, _pre)
    env.call_family = [s.name for s in earlier]
    env.subs = dict(default_subs())
    for s in earlier:
        env.subs[s.name] = s.subdef
    body = []
    nst = draw(st.integers(0, 3))
    for _ in range(nst):
        body.append(draw(sub_stmt(env, 2)))
    env.busy = set()
    if "nontail_return" in f and draw(st.booleans()):
        body.append(("if", draw(condition(env, 1)), ("block", [("return", draw(expr(env, 1, False)))]), None))
    if "if" in f and draw(st.booleans()):
        c = draw(condition(env, 1))
        saved = dict(env.vars)
        a = [draw(sub_stmt(env, 1)), ("return", draw(expr(env, 2, bool(earlier))))]
        env.vars = dict(saved)
        b = [draw(sub_stmt(env, 1)), ("return", draw(expr(env, 2, bool(earlier))))]
        env.vars = saved
        body.append(("if", c, ("block", a), ("block", b)))
    else:
        body.append(("return", draw(expr(env, 2, bool(earlier)))))
    spec = SubSpec(name, ret, params, body)
    from .cref import make_subdef
    spec.subdef = make_subdef(name, spec.c_ret(), spec.c_params(), spec.c_body())
    return spec


def _bump(env, pre):
    env.n += 1
    return f"{pre}{env.n}"


@st.composite
def sub_stmt(draw, env, depth):
    env.busy = set()
    k = draw(st.sampled_from(["decl", "decl", "assign", "if"] + (["for"] if "loop" in env.features else [])))
    # parameters are immutable in the compiler's model (assignment to one is rejected): only locals are assigned
    names = [n for n in sorted(env.vars) if not n.startswith("__") and n not in getattr(env, "readonly", ())]
    if k == "decl" or not names:
        t = draw(st.sampled_from(_types(env)))
        e = draw(expr(env, depth, False))
        n = env.fresh()
        env.vars[n] = t
        return ("decl", t, n, e, False)
    if k == "assign":
        n = draw(st.sampled_from(names))
        return ("expr", ("assign", "=", ("var", n), draw(expr(env, depth, False))))
    if k == "if":
        c = draw(condition(env, 1))
        saved = dict(env.vars)
        n = draw(st.sampled_from(names))
        th = ("block", [("expr", ("assign", "=", ("var", n), draw(expr(env, depth, False))))])
        env.vars = saved
        return ("if", c, th, None)
    cnt = env.fresh("c")
    saved = dict(env.vars)
    env.vars[cnt] = (False, 32)
    n = draw(st.sampled_from(names))
    bodyst = ("block", [("expr", ("assign", "=", ("var", n), ("bin", "+", ("var", n), ("var", cnt))))])
    env.vars = saved
    bound = ("bin", "&", draw(leaf(env, want_nonconst=True)), num(3))
    return ("for", ("decl", (False, 32), cnt, num(0), False), ("bin", "<", ("var", cnt), ("cast", (False, 32), bound)),
            ("post", "++", ("var", cnt)), bodyst)


def _var_uses(e, acc):
    """count variable mentions in an expression (not descending into nested statements of a statement-expression
    beyond their expressions, which belong to the same full expression anyway)"""
    from .cref import walk
    for n in walk(e):
        if n and n[0] == "var":
            acc[n[1]] = acc.get(n[1], 0) + 1
        elif n and n[0] == "decl":
            acc[n[2]] = acc.get(n[2], 0) + 1


def _strip_posts(e, bad):
    if isinstance(e, tuple):
        if e and e[0] == "post" and e[2][0] == "var" and e[2][1] in bad:
            return e[2]
        return tuple(_strip_posts(x, bad) for x in e)
    if isinstance(e, list):
        return [_strip_posts(x, bad) for x in e]
    return e


def desequence(s, note=lambda k: None):
    """C leaves `x++` undefined when x is read or modified elsewhere in the same full expression; the generator
    keeps out of that by turning such a postfix operation into a plain read"""
    k = s[0]
    if k == "decl" and s[3] is not None:
        parts = [s[3]]
    elif k == "expr":
        parts = [s[1]]
    elif k == "store":
        parts = [s[3], s[4]]
    elif k == "jump":
        parts = [s[1]]
    elif k == "if":
        parts = [s[1]]
    elif k == "for":
        parts = [x for x in (s[2],) if x is not None]
    else:
        return s
    uses = {}
    for p_ in parts:
        _var_uses(p_, uses)
    if k == "decl":
        uses[s[2]] = uses.get(s[2], 0) + 1
    from .cref import walk
    posted = {}
    for p_ in parts:
        for n in walk(p_):
            if n and n[0] == "post" and n[2][0] == "var":
                posted[n[2][1]] = posted.get(n[2][1], 0) + 1
    bad = {v for v, c in posted.items() if uses.get(v, 0) > 1}
    # statement-expressions that assign a variable mentioned elsewhere in the same full expression
    strip = []
    for p_ in parts:
        for n in walk(p_):
            if n and n[0] == "stmtexpr":
                inner = {}
                _var_uses(n, inner)
                assigned = {m[2][1] for m in walk(n[1]) if m and m[0] == "assign" and m[2][0] == "var"}
                if any(uses.get(v, 0) > inner.get(v, 0) for v in assigned):
                    strip.append(n)
    if strip:
        note("excluded:statement-expression assigns a variable used elsewhere in the full expression (statements dropped)")
        def rm(e):
            if isinstance(e, tuple):
                if any(e is x or e == x for x in strip):
                    return rm(e[2])
                return tuple(rm(x) for x in e)
            if isinstance(e, list):
                return [rm(x) for x in e]
            return e
        parts2 = [rm(p_) for p_ in parts]
        if k == "decl":
            s = ("decl", s[1], s[2], parts2[0], s[4])
        elif k == "expr":
            s = ("expr", parts2[0])
        elif k == "store":
            s = ("store", s[1], s[2], parts2[0], parts2[1])
        elif k == "jump":
            s = ("jump", parts2[0])
        elif k == "if":
            s = ("if", parts2[0], s[2], s[3])
        elif k == "for" and parts2:
            s = ("for", s[1], parts2[0], s[3], s[4])
    if not bad:
        return s
    note("excluded:unsequenced modification (postfix op replaced by a read)")
    if k == "decl":
        return ("decl", s[1], s[2], _strip_posts(s[3], bad), s[4])
    if k == "expr":
        return ("expr", _strip_posts(s[1], bad))
    if k == "store":
        return ("store", s[1], s[2], _strip_posts(s[3], bad), _strip_posts(s[4], bad))
    if k == "jump":
        return ("jump", _strip_posts(s[1], bad))
    if k == "if":
        return ("if", _strip_posts(s[1], bad), s[2], s[3])
    if k == "for":
        return ("for", s[1], _strip_posts(s[2], bad), s[3], s[4])
    return s
