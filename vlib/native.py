"""Native cross-check of the *reference evaluator* (not of the compiler): generated dialect programs are emitted as
one C translation unit, compiled with `gcc -O0 -fwrapv -w` and executed on the same machine states; wherever the
reference evaluator reports a defined result, the native run must produce the same final register values, memory
writes and jump record. A disagreement means `vlib/cref` is wrong => harness error (exit 2), never a VIOLATION.

Only programs over scalar operands, locals, memory, jumps and the pure bundled sub-routines are emitted; anything
else is skipped and counted.
"""
import json
import os
import re
import shutil
import subprocess
import tempfile

from .cref import show, operands_closure, walk
from .cref.ast import tname
from . import diff
from .machine import mask

PURE_SUBS = ["clz32", "clz64", "clo32", "clo64", "revbit16", "revbit32", "revbit64", "fbrev", "conv_round"]

PRELUDE = r'''
#include <stdint.h>
#include <stdio.h>
#include <string.h>
#include <signal.h>
#include <setjmp.h>
static sigjmp_buf JB;
static void on_fpe(int s) { (void)s; siglongjmp(JB, 1); }
typedef int8_t size1s_t; typedef uint8_t size1u_t; typedef int16_t size2s_t; typedef uint16_t size2u_t;
typedef int32_t size4s_t; typedef uint32_t size4u_t; typedef int64_t size8s_t; typedef uint64_t size8u_t;
static uint32_t MEM_SEED; static int JF; static uint32_t JT;
static uint32_t WADDR[4096]; static uint8_t WBYTE[4096]; static int NW;
static uint8_t mem_byte0(uint32_t addr) {
  uint32_t x = (uint32_t)((uint64_t)addr * 0x9E3779B1u + (uint64_t)MEM_SEED * 0x85EBCA6Bu + 0x27D4EB2Fu);
  x ^= x >> 15; x = (uint32_t)((uint64_t)x * 0x2C1B3C6Du); x ^= x >> 12; return (uint8_t)x; }
static uint8_t rd(uint32_t a) { for (int i = NW - 1; i >= 0; i--) if (WADDR[i] == a) return WBYTE[i]; return mem_byte0(a); }
static void wr(uint32_t a, uint8_t b) { if (NW < 4096) { WADDR[NW] = a; WBYTE[NW] = b; NW++; } }
static uint64_t ld(uint32_t a, int n) { uint64_t v = 0; for (int i = 0; i < n; i++) v |= (uint64_t)rd(a + i) << (8 * i); return v; }
static void st(uint32_t a, int n, uint64_t v) { for (int i = 0; i < n; i++) wr(a + i, (uint8_t)(v >> (8 * i))); }
#define mem_load_s8(a)  ((int8_t)ld((uint32_t)(a), 1))
#define mem_load_u8(a)  ((uint8_t)ld((uint32_t)(a), 1))
#define mem_load_s16(a) ((int16_t)ld((uint32_t)(a), 2))
#define mem_load_u16(a) ((uint16_t)ld((uint32_t)(a), 2))
#define mem_load_s32(a) ((int32_t)ld((uint32_t)(a), 4))
#define mem_load_u32(a) ((uint32_t)ld((uint32_t)(a), 4))
#define mem_load_s64(a) ((int64_t)ld((uint32_t)(a), 8))
#define mem_load_u64(a) ((uint64_t)ld((uint32_t)(a), 8))
#define mem_store_s8(a, v)  st((uint32_t)(a), 1, (uint64_t)(int8_t)(v))
#define mem_store_u8(a, v)  st((uint32_t)(a), 1, (uint64_t)(uint8_t)(v))
#define mem_store_s16(a, v) st((uint32_t)(a), 2, (uint64_t)(int16_t)(v))
#define mem_store_u16(a, v) st((uint32_t)(a), 2, (uint64_t)(uint16_t)(v))
#define mem_store_s32(a, v) st((uint32_t)(a), 4, (uint64_t)(int32_t)(v))
#define mem_store_u32(a, v) st((uint32_t)(a), 4, (uint64_t)(uint32_t)(v))
#define mem_store_s64(a, v) st((uint32_t)(a), 8, (uint64_t)(int64_t)(v))
#define mem_store_u64(a, v) st((uint32_t)(a), 8, (uint64_t)(uint64_t)(v))
#define JUMP(e) do { JF = 1; JT = (uint32_t)(e); } while (0)
#define cancel_slot ((void)0)
static uint32_t extract32(uint32_t value, int start, int length) { return (value >> start) & (~0U >> (32 - length)); }
static uint64_t extract64(uint64_t value, int start, int length) { return (value >> start) & (~0ULL >> (64 - length)); }
static int64_t sextract64(uint64_t value, int start, int length) { return ((int64_t)(value << (64 - length - start))) >> (64 - length); }
static uint32_t deposit32(uint32_t value, int start, int length, uint32_t fieldval) { uint32_t m = (~0U >> (32 - length)) << start; return (value & ~m) | ((fieldval << start) & m); }
static uint64_t deposit64(uint64_t value, int start, int length, uint64_t fieldval) { uint64_t m = (~0ULL >> (64 - length)) << start; return (value & ~m) | ((fieldval << start) & m); }
static uint16_t bswap16(uint16_t x) { return (uint16_t)((x << 8) | (x >> 8)); }
static uint32_t bswap32(uint32_t x) { return __builtin_bswap32(x); }
static uint64_t bswap64(uint64_t x) { return __builtin_bswap64(x); }
'''


def _c_type(t):
    return tname(t)


def emittable(stmts, subs):
    """can this program be given to gcc as it is?"""
    for n in walk(stmts):
        if not n or not isinstance(n[0], str):
            continue
        if n[0] == "call" and n[1] not in PURE_SUBS and n[1] not in ("extract32", "extract64", "sextract64", "deposit32",
                                                                      "deposit64", "bswap16", "bswap32", "bswap64"):
            return False
        if n[0] == "opnd" and (":" in n[1].text or n[1].width > 64):
            return False
        if n[0] in ("raw", "sizeof", "sizeoft"):
            return False
    return True


def sub_sources(subs_json):
    out = []
    order = ["clz32", "clz64", "clo32", "clo64", "revbit16", "revbit32", "revbit64", "fbrev", "conv_round"]
    for name in order:
        r = subs_json[name]
        out.append(f"static {r['return_type']} {name}({', '.join(r['params'])}) {r['code']}")
    return "\n".join(out)


def build_unit(cases, subs_json):
    """cases: list of (stmts, operands, [states]) -> C source; each case becomes a function run on its states"""
    src = [PRELUDE, sub_sources(subs_json)]
    main = ["int main(void) {", "  signal(SIGFPE, on_fpe);"]
    for k, (stmts, ops, states) in enumerate(cases):
        body = show.program(stmts)
        decls = []
        outs = []
        params = []
        for o in ops:
            t = _c_type((o.signed, o.width))
            var = o.text
            params.append(f"{t} in_{k}_{len(params)}")
            decls.append(f"{t} {var} = in_{k}_{len(params) - 1};")
            if o.kind not in ("imm", "pc"):
                outs.append((var, o.slot, o.width))
        fn = [f"static void prog_{k}(uint32_t seed{''.join(', ' + p for p in params)}) {{",
              "  MEM_SEED = seed; JF = 0; JT = 0; NW = 0;",
              "  uint32_t EA = 0, i = 0, j = 0, k = 0; (void)EA; (void)i; (void)j; (void)k;"]
        fn += ["  " + d for d in decls]
        fn.append("  " + body)
        for var, slot, w in outs:
            fn.append(f'  printf("R {k} %s %llx\\n", "{slot}", (unsigned long long)(uint{w}_t){var});')
        fn.append(f'  printf("J {k} %d %x\\n", JF, JT);')
        fn.append(f'  for (int q = 0; q < NW; q++) printf("M {k} %x %x\\n", WADDR[q], WBYTE[q]);')
        fn.append(f'  printf("E {k}\\n");')
        fn.append("}")
        src.append("\n".join(fn))
        for st_ in states:
            args = [str(st_.get("mem_seed", 0)) + "u"]
            for o in ops:
                if o.kind == "imm":
                    v = st_["imms"][o.slot[4:]] & mask(32)
                elif o.kind == "pc":
                    v = st_["pc"] & mask(32)
                else:
                    r = st_["regs"][o.slot]
                    v = r["new"] if o.new else r["old"]
                args.append(f"({_c_type((o.signed, o.width))})0x{v:x}ULL")
            main.append(f"  if (sigsetjmp(JB, 1) == 0) prog_{k}({', '.join(args)}); else printf(\"\\nX {k}\\n\");")
    main.append("  return 0; }")
    src.append("\n".join(main))
    return "\n\n".join(src)


def run_native(cases, subs_json):
    """-> list (per case) of list (per state) of outcome dicts {regs: slot->value, jump, mem}; None if gcc fails"""
    d = tempfile.mkdtemp(prefix="native_")
    try:
        cfile = os.path.join(d, "unit.c")
        with open(cfile, "w") as f:
            f.write(build_unit(cases, subs_json))
        exe = os.path.join(d, "unit")
        r = subprocess.run(["gcc", "-O0", "-fwrapv", "-w", "-o", exe, cfile], capture_output=True, text=True)
        if r.returncode != 0:
            return None, r.stderr[:2000]
        r = subprocess.run([exe], capture_output=True, text=True, timeout=600)
        results = [[] for _ in cases]
        cur = {"regs": {}, "mem": {}, "jump": None}
        for line in r.stdout.split("\n"):
            p = line.split()
            if not p:
                continue
            if p[0] not in ("R", "J", "M", "E", "X") or len(p) < 2:
                continue
            k = int(p[1])
            if p[0] == "X":
                results[k].append(None)      # arithmetic trap (division by zero / INT_MIN / -1): C-undefined
                cur = {"regs": {}, "mem": {}, "jump": None}
            elif p[0] == "R" and len(p) < 4:
                continue
            elif p[0] == "R":
                cur["regs"][p[2]] = int(p[3], 16)
            elif p[0] == "J":
                cur["jump"] = [bool(int(p[2])), int(p[3], 16) if int(p[2]) else None]
            elif p[0] == "M":
                cur["mem"][int(p[2], 16)] = int(p[3], 16)
            elif p[0] == "E":
                results[k].append(cur)
                cur = {"regs": {}, "mem": {}, "jump": None}
        return results, None
    finally:
        shutil.rmtree(d, ignore_errors=True)


def crosscheck(programs, nstates, seed, subs_json=None):
    """programs: list of statement lists. Returns (n_compared, n_skipped, disagreements[list of dict])."""
    import random
    if shutil.which("gcc") is None:
        return 0, len(programs), []
    if subs_json is None:
        from . import boot
        subs_json = json.load(open(os.path.join(boot.REPO_DIR, "Resources/Hexagon/sub_routines.json")))["sub_routines"]
    subs = diff.bundled_subs()
    cases = []
    skipped = 0
    for stmts in programs:
        if not emittable(stmts, subs):
            skipped += 1
            continue
        try:
            ops = [o for o in operands_closure(stmts, subs)]
            states = diff.simple_states(ops, nstates, seed + len(cases))
        except diff.Discard:
            skipped += 1
            continue
        cases.append((stmts, ops, states))
    if not cases:
        return 0, skipped, []
    native, err = run_native(cases, subs_json)
    rejected = []
    tries = 0
    while native is None and tries < 6:
        # drop the functions gcc complains about and retry
        offenders = sorted({int(m) for m in re.findall(r"In function .prog_(\d+).", err)}, reverse=True)
        if not offenders:
            return 0, skipped + len(cases), [{"gcc_error": err}]
        for k in offenders:
            rejected.append({"program": show.program(cases[k][0]), "gcc": [l for l in err.split("\n") if "error" in l][:2]})
            del cases[k]
        tries += 1
        if not cases:
            break
        native, err = run_native(cases, subs_json)
    if native is None:
        return 0, skipped + len(cases), [{"gcc_error": err}]
    if rejected:
        # a program gcc rejects is not valid C: the generator is unsound
        return 0, skipped, [{"not_valid_c": rejected[:3], "count": len(rejected)}]
    compared = 0
    bad = []
    for (stmts, ops, states), outs in zip(cases, native):
        if len(outs) != len(states):
            bad.append({"program": show.program(stmts), "error": "native run produced fewer results than states"})
            continue
        for st_, nat in zip(states, outs):
            if nat is None:
                continue
            try:
                oc, _ = diff.run_c(stmts, st_, subs)
            except (diff.Discard, Exception):
                continue      # undefined / unmodelled for the reference: nothing to compare
            compared += 1
            # final register values: written value, else initial value of the bank the operand reads
            exp_regs = {}
            for o in ops:
                if o.kind in ("imm", "pc"):
                    continue
                r = st_["regs"][o.slot]
                exp_regs[o.slot] = oc["regs"][o.slot][1] if o.slot in oc["regs"] else (r["new"] if o.new else r["old"])
            if exp_regs != {k: v for k, v in nat["regs"].items()} or oc["jump"] != nat["jump"] or oc["mem"] != nat["mem"]:
                bad.append({"program": show.program(stmts), "state": st_, "reference": {"regs": exp_regs, "jump": oc["jump"],
                            "mem": oc["mem"]}, "native": nat})
                break
    return compared, skipped, bad
