"""Coverage-guided byte-level fuzz target (atheris / libFuzzer) for the string helpers of the preprocessor:
split_resolved_shortcode, split_compounds, replace_do_while_0. The bytes are decoded into structured arguments
(name, token list, padding) so the fuzzer reaches the logic; the semantic oracle sits inside the target
(assemble/split round trip, independent brace-matching do-while remover). Run as

    python -m vlib.fuzz_helpers <out.json> -runs=N -seed=S [corpus dir]

It writes a JSON summary (executions, non-trivial inputs, failures) and exits 0; the calling check (C19 / C20
thorough tier) turns recorded failures into violations. Without atheris the module reports {"available": false}.
"""
import json
import os
import sys

ALPHABET = ["RdV", "RsV", " = ", " + ", "(", ")", "{", "}", ";", ",", ", ", " ", "insn(", "1", "fcn", "if ", "else ",
            "0x1f", "mem_load_u8", "))", ") ", "\t", "a_b", "do ", "do{", "} while (0)", "}while(0)", " while (0)",
            "undo = 1;", "do_it(x);", "while (00) { y; }", "__COMPOUND_PART1__", "x;", "f(a, b);"]

STATE = {"execs": 0, "nontrivial": 0, "failures": []}


def _fail(kind, detail):
    if len(STATE["failures"]) < 20 and not any(f["kind"] == kind for f in STATE["failures"]):
        STATE["failures"].append({"kind": kind, "detail": detail})


def make_target():
    import atheris
    from vlib import boot
    boot.boot()
    from rzilcompiler.Preprocessor.Hexagon.PreprocessorHexagon import PreprocessorHexagon as PH
    from vlib.checks.c20 import remove_do_while0, toks
    from vlib.checks.c19 import M, inner, balanced

    def target(data):
        fdp = atheris.FuzzedDataProvider(data)
        mode = fdp.ConsumeIntInRange(0, 2)
        n = fdp.ConsumeIntInRange(1, 14)
        body = "".join(ALPHABET[fdp.ConsumeIntInRange(0, len(ALPHABET) - 1)] for _ in range(n))
        STATE["execs"] += 1
        if mode == 0:
            name = "".join("ABCxyz019_"[fdp.ConsumeIntInRange(0, 9)] for _ in range(fdp.ConsumeIntInRange(1, 8)))
            line = f"insn({name}, {body})" + ["", "\n"][fdp.ConsumeIntInRange(0, 1)]
            try:
                got = PH.split_resolved_shortcode(line)
            except Exception:
                return
            if any(c in body for c in "),{"):
                STATE["nontrivial"] += 1
            if tuple(got) != (name, body):
                _fail("split_resolved_shortcode returns a wrong pair", {"line": line, "got": list(got)})
        elif mode == 1:
            code = "insn(X, { " + body.replace(M, "") + " })"
            try:
                got = PH.replace_do_while_0(code)
            except Exception as e:
                _fail("replace_do_while_0 raises", {"code": code, "error": str(e)})
                return
            # only judge inputs whose do/while tokens form well-nested wrappers (valid C shapes)
            t = toks(code)
            want = remove_do_while0(list(t))
            if "do" in want or t.count("do") != t.count("while") - sum(1 for i, x in enumerate(t) if x == "while" and t[i + 1:i + 4] == ["(", "00", ")"]):
                return
            if t.count("do") >= 2:
                STATE["nontrivial"] += 1
            # compared as character streams without white space: the byte-level alphabet can put an identifier directly
            # behind `while (0)` (not valid C), where removing the wrapper glues two tokens together
            if "".join(toks(got)) != "".join(want):
                _fail("replace_do_while_0 differs from brace-matching removal", {"code": code, "got": got.strip(),
                                                                               "expected": " ".join(want)})
        else:
            p1 = body.replace(M, "")
            if not balanced(p1):
                return
            post = "".join(ALPHABET[fdp.ConsumeIntInRange(0, len(ALPHABET) - 1)] for _ in range(fdp.ConsumeIntInRange(0, 4))).replace(M, "")
            if not balanced(post):
                return
            b = "{" + M + "{" + p1 + "}" + M + post + "}"
            try:
                r1, r2 = PH.split_compounds(b)
            except Exception:
                return
            STATE["nontrivial"] += 1
            i1, i2 = inner(r1), inner(r2)
            nb = lambda ts: [x for x in ts if x not in "{}"]
            if i1 is None or i2 is None or not balanced(i1) or not balanced(i2) or nb(toks(i1) + toks(i2)) != nb(toks(p1) + toks(post)):
                _fail("split_compounds loses or reorders statements", {"body": b, "p1": r1, "p2": r2})

    return target


def main():
    out = sys.argv[1]
    argv = [sys.argv[0]] + sys.argv[2:]
    try:
        import atheris
    except ImportError:
        json.dump({"available": False}, open(out, "w"))
        return 0
    import atexit

    def dump():
        json.dump({"available": True, **STATE}, open(out, "w"))
    from vlib import boot
    boot.boot()          # import path / cwd of the tree under test first
    with atheris.instrument_imports(include=["rzilcompiler.Preprocessor"]):
        import importlib
        import rzilcompiler.Preprocessor.Hexagon.PreprocessorHexagon as mod
        importlib.reload(mod)
    inner_target = make_target()

    def target(data):
        inner_target(data)
        # libFuzzer leaves through a C-level _exit: keep the summary file current
        if STATE["execs"] % 1000 == 0:
            dump()

    atheris.Setup(argv, target)
    dump()
    atheris.Fuzz()
    return 0


if __name__ == "__main__":
    # libFuzzer calls os._exit at the end of -runs: write the summary from the target periodically instead
    import atexit
    out_path = sys.argv[1] if len(sys.argv) > 1 else "/dev/null"
    _orig_exit = os._exit

    def _exit(code):
        try:
            json.dump({"available": True, **STATE}, open(out_path, "w"))
        except Exception:
            pass
        _orig_exit(code)
    os._exit = _exit
    sys.exit(main())
