"""Entry point: ./check <ID> [--tier quick|thorough] [--seed N] [--replay file]"""
import argparse
import importlib
import json
import os
import sys
import traceback

from . import boot, run


def main(argv=None):
    ap = argparse.ArgumentParser()
    ap.add_argument("pid")
    ap.add_argument("--tier", default=os.environ.get("VERIF_TIER") or "quick", choices=["quick", "thorough"])
    ap.add_argument("--seed", type=int, default=None)
    ap.add_argument("--replay", default=None)
    a = ap.parse_args(argv)
    seed = a.seed
    if seed is None:
        try:
            seed = int(os.environ.get("VERIF_SEED", "1"))
        except ValueError:
            seed = 1
    pid = a.pid.upper()
    try:
        mod = importlib.import_module(f"vlib.checks.{pid.lower()}")
    except ImportError:
        traceback.print_exc()
        print(f"unknown check {pid}", file=sys.stderr)
        return 2
    try:
        boot.boot()
        if a.replay:
            path = a.replay if os.path.isabs(a.replay) else os.path.join(boot.VERIF_DIR, a.replay)
            with open(path) as fh:
                rep = json.load(fh)
            ok, msg = mod.replay(rep)
            print(msg)
            if not ok:
                print(f"VIOLATION property={pid} replay={a.replay}")
                return 1
            return 0
        ctx = run.Ctx(pid, a.tier, seed)
        mod.run_check(ctx)
        return ctx.finish()
    except run.HarnessError as e:
        print(f"[{pid}] HARNESS ERROR: {e}", file=sys.stderr)
        return 2
    except Exception:
        traceback.print_exc()
        print(f"[{pid}] HARNESS ERROR (crash)", file=sys.stderr)
        return 2


if __name__ == "__main__":
    sys.exit(main())
