"""Shared driver for the static properties C10 (sorts), C11 (C body), C12 (ownership): applies vlib.il.static to
corpus parts, sub-routine definitions and generated programs, in both output layouts."""
import re

from . import boot, run, diff, gen, progcheck
from .cref import c_type
from .cref.ast import classify
from .il import reader, static

TOKEN = re.compile(r"[A-Za-z_]\w*(?::\d{1,2})?(?:_NEW)?")


def slot_widths(text, subs_json=None, depth=0):
    """slot -> width from the operand tokens of a C text (architectural table, not compiler objects)"""
    out = {}
    for tok in set(TOKEN.findall(text)):
        o = classify(tok)
        if o is not None and o.kind not in ("imm", "pc"):
            out.setdefault(o.slot, o.width)
        if subs_json and tok in subs_json and depth < 4:
            for k, v in slot_widths(subs_json[tok]["code"], subs_json, depth + 1).items():
                out.setdefault(k, v)
    return out


def sort_of_ctype(t):
    if t is None or t == "ext":
        return None
    return f"bv{t[1]}"


class SubInfo:
    """declared parameter sorts of sub-routines (bundled from sub_routines.json, generated ones registered)"""

    def __init__(self):
        import json, os
        with open(os.path.join(boot.REPO_DIR, "Resources/Hexagon/sub_routines.json")) as f:
            self.json = dict(json.load(f)["sub_routines"])
        self.extra = {}

    def add(self, name, ret, params, code):
        self.extra[name] = {"return_type": ret, "params": params, "code": code}

    def all(self):
        d = dict(self.json)
        d.update(self.extra)
        return d

    def param_sorts(self, name):
        r = self.all().get(name)
        if r is None:
            return None
        out = []
        for p in r["params"]:
            m = re.match(r"^(.*?)([A-Za-z_]\w*)$", p.strip())
            try:
                t = c_type(m.group(1).replace("*", "").strip())
            except ValueError:
                t = "ext"
            out.append(sort_of_ctype(t))
        return out

    def param_names(self, name):
        return [re.match(r"^(.*?)([A-Za-z_]\w*)$", p.strip()).group(2) for p in self.all()[name]["params"]]


def issues_for_body(which, body, text_c, resolver, subinfo, param_sorts=None, pure_params=()):
    """which in {'C10','C11','C12'} -> list of (kind, msg)"""
    if which == "C10":
        widths = slot_widths(text_c, subinfo.all())
        sc = static.SortChecker(lambda s: widths.get(s), resolver, param_sorts or {}, subinfo.param_sorts)
        return [(i.kind, i.msg) for i in sc.check_body(body)]
    if which == "C11":
        return static.check_c_body(body, params=list(param_sorts or {}) + ["bundle"])
    if which == "C12":
        return static.check_ownership(body, pure_params)
    raise ValueError(which)


def check_text(which, il_text, text_c, resolver, subinfo, **kw):
    try:
        body = reader.parse_body(il_text)
    except reader.ReadError as e:
        if which == "C11":
            return [("ill-formed-text", str(e)[:200])]
        return [("unreadable", str(e)[:120])] if which == "C11" else []
    return issues_for_body(which, body, text_c, resolver, subinfo, **kw)


def subroutine_issues(which, compiler, name, subinfo, resolver):
    """check the DEF text of a registered sub-routine stand-alone"""
    from rzilcompiler.Transformer.Hybrids.SubRoutine import SubRoutineInitType
    try:
        text = compiler.get_sub_routine(name).il_init(SubRoutineInitType.DEF)
    except Exception as e:
        # the routine was accepted at registration: its definition must be printable
        return [("definition-cannot-be-emitted", f"{type(e).__name__}: {str(e)[:120]}")]
    try:
        _, params, body = reader.parse_subroutine_def(text)
    except reader.ReadError as e:
        return [("ill-formed-text", str(e)[:200])] if which == "C11" else []
    sorts = subinfo.param_sorts(name) or []
    psorts = {}
    pure = []
    for (ptype, pname), s in zip(params, sorts + [None] * len(params)):
        psorts[pname] = s
        if "RzILOpPure" in ptype:
            pure.append(pname)
    code = subinfo.all()[name]["code"]
    iss = issues_for_body(which, body, code, resolver, subinfo, param_sorts=psorts, pure_params=pure)
    if which == "C11":
        # a body that mentions hi / pkt must declare them (they are not parameters)
        names = {d.name for d in body.decls}
        pn = {p[1] for p in params}
        used = set()
        for d in body.decls:
            used |= set(static.free_ids(d.term))
        for v in ("hi", "pkt"):
            if v in used and v not in names and v not in pn:
                iss.append(("prologue-missing", f"sub-routine {name} uses {v} without declaring it"))
        if any(p[1] == "bundle" for p in params) is False and ("bundle" in used):
            iss.append(("prologue-missing", f"sub-routine {name} uses bundle but has no such parameter"))
    return iss
