"""Generic 'generated program' differential: compile with the real compiler, run reference C vs emitted IL on
generated states, judge, shrink failures structurally, report signatures.

A *judge result* for (program, state) is None (agree), ('discard', why) or (kind, detail) for a failure.
"""
import collections

from . import boot, run, diff
from .cref import show, operands_closure, walk
from .cref.eval import NotInDialect
from .il import reader
from .il.interp import ILError


class Compiled:
    def __init__(self, text, il, body):
        self.text, self.il, self.body = text, il, body


def try_compile(compiler, text):
    """-> ('ok', il_text) | ('reject', 'ExcType: msg'). Resets the transformer after a failure (the public
    compile_c_stmt does not; history independence is C14's business, not every other check's)."""
    try:
        with boot.quiet():
            il = compiler.compile_c_stmt(text)
        return "ok", il
    except Exception as e:
        try:
            compiler.transformer.reset()
        except Exception:
            pass
        return "reject", f"{type(e).__name__}: {str(e).strip().splitlines()[-1][:120] if str(e).strip() else ''}"


def judge_state(ast, body, state, resolver, subs):
    """compare C and IL on one state"""
    try:
        oc, cev = diff.run_c(ast, state, subs)
    except diff.Discard as e:
        return ("discard", e.why), None
    except NotInDialect as e:
        return ("discard", "not-in-dialect(reference): " + str(e)[:40]), None
    try:
        oi, it = diff.run_il(body, state, resolver)
    except diff.Discard as e:
        return ("discard", e.why), cev
    except ILError as e:
        return ("il-error " + type(e).__name__, str(e)[:200]), cev
    d = diff.diff_outcomes(oc, oi)
    if d:
        return ("value-diff", [list(x) for x in d[:3]]), cev
    return None, cev


# --------------------------------------------------------------------------------------------- shrinking

def _children_exprs(e):
    k = e[0]
    if k in ("un", "cast", "sizeof"):
        return [e[2]] if k != "sizeof" else []
    if k == "bin":
        return [e[2], e[3]]
    if k == "cond":
        return [e[1], e[2], e[3]]
    if k == "load":
        return [e[3]]
    if k == "paren":
        return [e[1]]
    if k == "call":
        return list(e[2])
    if k == "stmtexpr":
        return [e[2]]
    return []


def _replace_path(node, path, new):
    if not path:
        return new
    i = path[0]
    if isinstance(node, tuple):
        return node[:i] + (_replace_path(node[i], path[1:], new),) + node[i + 1:]
    lst = list(node)
    lst[i] = _replace_path(node[i], path[1:], new)
    return lst


def _paths(node, path=()):
    """all (path, subnode) pairs, pre-order"""
    yield path, node
    if isinstance(node, (tuple, list)):
        for i, x in enumerate(node):
            if isinstance(x, (tuple, list)):
                yield from _paths(x, path + (i,))


STMT_KINDS = {"decl", "expr", "empty", "block", "if", "for", "store", "jump", "return", "cancel", "nop"}
EXPR_KINDS = {"num", "opnd", "var", "un", "bin", "cast", "cond", "assign", "post", "call", "load", "stmtexpr",
              "sizeof", "paren"}


def no_new_constant_folding(stmts):
    """a shrink step must not create literal-only operations / conditions (that is the domain of C09 and would
    move the failure into a different class)"""
    from .gen import is_const
    for n in walk(stmts):
        if not n or not isinstance(n[0], str):
            continue
        if n[0] == "bin" and is_const(n[2]) and is_const(n[3]):
            return False
        if n[0] == "un" and is_const(n[2]):
            return False
        if n[0] in ("if", "cond") and is_const(n[1]):
            return False
        if n[0] == "for" and n[2] is not None and is_const(n[2]):
            return False
    return True


def shrink_program(stmts, still_fails, budget=60):
    """greedy structural shrink; still_fails(stmts) -> bool"""
    if no_new_constant_folding(stmts):
        inner = still_fails
        still_fails = lambda s: no_new_constant_folding(s) and inner(s)
    cur = stmts
    tests = 0
    improved = True
    while improved and tests < budget:
        improved = False
        for path, node in list(_paths(cur)):
            if tests >= budget:
                break
            cands = []
            if isinstance(node, list):
                # remove one statement of a statement list
                for i in range(len(node)):
                    if len(node) > 1 or path == ():
                        cands.append(("list", node[:i] + node[i + 1:]))
            elif isinstance(node, tuple) and node:
                k = node[0]
                if k == "if":
                    cands.append(("n", node[2]))
                    if node[3] is not None:
                        cands.append(("n", node[3]))
                        cands.append(("n", ("if", node[1], node[2], None)))
                elif k == "for":
                    cands.append(("n", node[4]))
                elif k == "block" and len(node[1]) == 1:
                    cands.append(("n", node[1][0]))
                elif k in EXPR_KINDS and k not in ("num", "opnd", "var"):
                    for ch in _children_exprs(node):
                        cands.append(("n", ch))
                    if k != "assign":
                        cands.append(("n", ("num", 1, (True, 32), "1")))
            for _, new in cands:
                if tests >= budget:
                    break
                trial = _replace_path(cur, path, new)
                if isinstance(trial, list) and len(trial) == 0:
                    continue
                tests += 1
                try:
                    ok = still_fails(trial)
                except Exception:
                    ok = False
                if ok:
                    cur = trial
                    improved = True
                    break
            if improved:
                break
    return cur


def shrink_state(state, still_fails, budget=40):
    cur = state
    tests = 0
    import copy
    for slot in list(cur["regs"]):
        for field in ("old", "new"):
            for v in (0, 1):
                if cur["regs"][slot][field] in (0, 1) or tests >= budget:
                    continue
                t = copy.deepcopy(cur)
                t["regs"][slot][field] = v
                if field == "old" and cur["regs"][slot]["new"] == cur["regs"][slot]["old"]:
                    t["regs"][slot]["new"] = v
                tests += 1
                if still_fails(t):
                    cur = t
                    break
    for l in list(cur["imms"]):
        for v in (0, 1):
            if cur["imms"][l] in (0, 1) or tests >= budget:
                continue
            t = copy.deepcopy(cur)
            t["imms"][l] = v
            tests += 1
            if still_fails(t):
                cur = t
                break
    return cur


def feature_signature(stmts):
    """syntactic feature set of a (shrunk) program: operators and node kinds"""
    feats = set()
    for n in walk(stmts):
        if not n or not isinstance(n[0], str):
            continue
        k = n[0]
        if k in ("bin", "un"):
            feats.add(n[1])
        elif k == "assign":
            feats.add(n[1] if n[1] != "=" else "assign")
            if n[3] and n[3][0] == "assign":
                feats.add("chain")
        elif k == "cast":
            feats.add(f"cast{'s' if n[1][0] else 'u'}{n[1][1]}")
        elif k == "decl":
            feats.add(f"decl{'s' if n[1][0] else 'u'}{n[1][1]}")
        elif k == "opnd":
            o = n[1]
            feats.add(f"{o.kind}{o.width}{'n' if o.new else ''}")
        elif k == "call":
            feats.add("call:" + n[1])
        elif k in ("cond", "post", "load", "store", "stmtexpr", "if", "for", "jump", "sizeof", "block"):
            feats.add(k)
        elif k == "num" and (n[2] != (True, 32)):
            feats.add(f"lit{'s' if n[2][0] else 'u'}{n[2][1]}")
    return ",".join(sorted(feats))


# --------------------------------------------------------------------------------------------- explore

class Explorer:
    """worker-side helper: feed it programs; it compiles, runs states, collects and shrinks failures"""

    def __init__(self, part, pid, fmt="stmt", max_shrinks=3, compiler=None):
        self.p = part
        self.pid = pid
        self.c = compiler or boot.compiler(fmt)
        self.resolver = diff.make_resolver(self.c)
        self.subs = diff.bundled_subs()
        self.raw_fail = []      # (kind, stmts, state, detail)
        self.max_shrinks = max_shrinks
        self.extra_subs = {}
        self.features = None     # when set: shrink steps must stay inside the generator's normal form

    def compile(self, stmts):
        text = show.program(stmts)
        st, il = try_compile(self.c, text)
        if st != "ok":
            return None, text, il
        try:
            body = reader.parse_body(il)
        except reader.ReadError as e:
            return ("unreadable", str(e)), text, il
        return Compiled(text, il, body), text, il

    def all_subs(self):
        if self.extra_subs:
            s = dict(self.subs)
            s.update(self.extra_subs)
            return s
        return self.subs

    def run_states(self, stmts, comp, states):
        """-> number judged; failures are recorded"""
        judged = 0
        subs = self.all_subs()
        for stt in states:
            self.p.ev()
            r, cev = judge_state(stmts, comp.body, stt, self.resolver, subs)
            if r is None:
                judged += 1
                continue
            if r[0] == "discard":
                self.p.discard(r[1])
                continue
            judged += 1
            self.raw_fail.append((r[0], stmts, stt, r[1]))
        return judged

    def in_normal_form(self, stmts):
        if self.features is None:
            return True
        from . import gen
        try:
            return gen.normalize(stmts, self.features, self.all_subs(), {}) == stmts
        except Exception:
            return False

    def fails_with(self, kind, stmts, state):
        comp, text, il = self.compile(stmts)
        if comp is None or isinstance(comp, tuple):
            return False
        r, _ = judge_state(stmts, comp.body, state, self.resolver, self.all_subs())
        return r is not None and r[0] == kind

    def finish(self, sigfmt=None):
        """shrink a bounded number of the smallest failures per kind and register them"""
        by_kind = collections.defaultdict(list)
        for f in self.raw_fail:
            by_kind[f[0]].append(f)
        for kind, fl in by_kind.items():
            fl.sort(key=lambda f: len(show.program(f[1])))
            seen = set()
            for kind, stmts, state, detail in fl[: self.max_shrinks]:
                small = shrink_program(stmts, lambda s: self.in_normal_form(s) and self.fails_with(kind, s, state))
                sstate = shrink_state(state, lambda s: self.fails_with(kind, small, s))
                feats = feature_signature(small)
                sig = f"{self.pid} {kind} [{feats}]"
                if sig in seen:
                    continue
                seen.add(sig)
                comp, text, il = self.compile(small)
                r = None
                if comp is not None and not isinstance(comp, tuple):
                    r, _ = judge_state(small, comp.body, sstate, self.resolver, self.all_subs())
                self.p.failure(sig, {"program": text, "state": sstate, "kind": kind,
                                     "detail": r[1] if r else detail, "il": il,
                                     "original_program": show.program(stmts)})
            self.p.count(f"failures:{kind}", len(fl))
        self.raw_fail = []


def replay_program(rep, fmt="stmt"):
    """re-run a replay file {program, state, kind} without Hypothesis"""
    c = boot.compiler(fmt)
    resolver = diff.make_resolver(c)
    text = rep["program"]
    st, il = try_compile(c, text)
    if st != "ok":
        return True, f"replay: program is now rejected ({il})"
    try:
        body = reader.parse_body(il)
    except reader.ReadError as e:
        return False, f"replay: unreadable IL: {e}"
    ast = diff.parse_c(text)
    r, _ = judge_state(ast, body, rep["state"], resolver, diff.bundled_subs())
    if r is None:
        return True, "replay: C and IL agree"
    if r[0] == "discard":
        return True, f"replay: discarded ({r[1]})"
    return False, f"replay: {r[0]}: {r[1]}"


# --------------------------------------------------------------------------------------------- generic worker

def judged_twice(stmts, judged):
    return judged >= 2


def has_kind(stmts, kinds):
    for n in walk(stmts):
        if n and n[0] in kinds:
            return True
    return False


def gen_worker(pid, features, nprog, nstates, seed, depth=3, nest=2, lo=1, hi=6, fmt="stmt",
               nontrivial=None, classify=None, post=None, native_all=False):
    """Generate `nprog` programs with Hypothesis, compile, run `nstates` generated states each.
    nontrivial(stmts, judged) -> bool ; classify(stmts) -> iterable of class labels ; post(explorer, stmts, comp)
    is an optional extra judge per compiled program (static checks)."""
    import hypothesis
    from hypothesis import given, settings, Phase, strategies as st
    from . import gen
    p = run.Part()
    ex = Explorer(p, pid, fmt)
    features = frozenset(features)
    ex.features = features
    generated = []

    @hypothesis.seed(seed)
    @settings(max_examples=nprog, database=None, deadline=None, derandomize=False, phases=[Phase.generate],
              suppress_health_check=list(hypothesis.HealthCheck))
    @given(gen.program(features, depth=depth, nest=nest, lo=lo, hi=hi), st.data())
    def prop(pe, data):
        stmts, env = pe
        nstats = {}
        stmts = gen.normalize(stmts, features, ex.all_subs(), nstats)
        for k_, v_ in nstats.items():
            p.exclude(k_.replace("excluded:", ""), v_)
        generated.append(stmts)
        comp, text, il = ex.compile(stmts)
        if comp is None:
            p.count("program:rejected")
            p.count("reject:" + il.split(":")[0])
            return
        if isinstance(comp, tuple):
            p.failure(f"{pid} il-unreadable", {"program": text, "error": comp[1], "il": il})
            return
        p.count("program:compiled")
        try:
            ops = operands_closure(stmts, ex.subs)
            strat = diff.state_strategy(ops)
        except diff.Discard as e:
            p.discard(e.why)
            return
        states = [data.draw(strat) for _ in range(nstates)]
        judged = ex.run_states(stmts, comp, states)
        if classify:
            for c in classify(stmts):
                p.count("class:" + c)
        if judged and (nontrivial is None or nontrivial(stmts, judged)):
            p.nontriv(text)
        if post:
            post(ex, stmts, comp)
        p.sample({"program": text, "states_judged": judged}, cap=3)

    prop()
    ex.finish()
    # native cross-check of the reference evaluator (and of the validity of the generated C) on this shard's programs
    from . import native
    ncomp, nskip, bad = native.crosscheck(generated if native_all else generated[:40], 4, seed)
    p.count("native cross-check: executions compared with gcc -fwrapv", ncomp)
    p.count("native cross-check: programs not emitted (calls with register side effects, pairs ...)", nskip)
    if bad:
        raise run.HarnessError("reference evaluator / generator disagrees with gcc: " + str(bad[0])[:1500])
    return p.d


def run_gen(ctx, pid, features, nprog, nstates, shards=16, **kw):
    per = max(1, nprog // shards)
    args = [(pid, features, per, nstates, run.sub_seed(ctx.seed, pid, i)) for i in range(shards)]
    import functools
    fn = functools.partial(_gen_worker_kw, kw)
    run.run_sharded(ctx, fn, args, procs=min(16, shards))


def _gen_worker_kw(kw, pid, features, per, nstates, seed):
    return gen_worker(pid, features, per, nstates, seed, **kw)


def replay_known(ctx, fmt="stmt", replay_fn=None):
    """Replay the witness of every open finding of this property. Still failing -> KNOWN-FINDING line and the
    finding's generator feature stays excluded; no longer failing -> the feature is generated again.
    Returns the set of features to switch back on."""
    enable = set()
    for f in ctx.findings:
        if f.get("status") == "fixed":
            # repaired by a fix: commit - its class is generated again (and nothing is suppressed)
            enable.update(f.get("features", []))
            continue
        if f.get("status") != "open" or "program" not in f.get("witness", {}):
            continue
        w = f["witness"]
        if replay_fn is not None:
            ok, msg = replay_fn(w)
        else:
            ok, msg = replay_program({"program": w["program"], "state": w["state"]}, w.get("fmt", fmt))
        ctx.evaluations += 1
        if not ok:
            ctx.known_hit[f["id"]] = f
            ctx.count("known_finding:" + f["id"])
        else:
            ctx.count("finding no longer reproduces:" + f["id"])
            for feat in f.get("features", []):
                enable.add(feat)
    return enable


def judge_shapes(ctx, which, shapes, nstates=5, fmt="stmt"):
    """program shapes that belong to listed findings (or used to): each is compiled and judged against the C
    reference; a failure carries the signature `<which> witness-shape <tag>: <kind>`, which a listed finding matches by
    prefix - a shape whose finding is repaired simply passes, a shape that fails without a listed finding is a VIOLATION"""
    from .cref import operands_closure
    c = boot.compiler(fmt)
    resolver = diff.make_resolver(c)
    subs = diff.bundled_subs()
    for tag, programs in shapes.items():
        for text in programs:
            ctx.evaluations += 1
            st, il = try_compile(c, text)
            if st != "ok":
                ctx.count(f"witness-shape {tag}: rejected")
                continue
            try:
                ast = diff.parse_c(text)
                body = reader.parse_body(il)
            except Exception as e:
                ctx.failure(f"{which} witness-shape {tag}: unreadable", {"program": text, "error": str(e)[:200]})
                continue
            for stt in diff.simple_states(operands_closure(ast, subs), nstates, 29):
                r, _ = judge_state(ast, body, stt, resolver, subs)
                if r is None:
                    ctx.nontriv(("witness-shape", tag, text, run.h64(stt)))
                    continue
                if r[0] == "discard":
                    ctx.discard(r[1])
                    continue
                ctx.failure(f"{which} witness-shape {tag}: {r[0]}", {"program": text, "state": stt, "kind": r[0], "detail": r[1]})
                break
