"""Glue: compile with the real compiler, execute C reference and emitted IL on the same state, compare."""
import copy

from . import boot
from .machine import Machine, Ambiguous, Inconclusive, Unmodelled, UnknownSlot, UB, mask
from .cref import parse_program, strip_parens, operands_of, load_bundled_subs, CParseError
from .cref.eval import CEval, NotInDialect
from .il import reader
from .il.interp import Interp, ILError


class Discard(Exception):
    """case cannot be judged (UB, ambiguous, unmodelled, inconclusive) - counted, never a violation"""

    def __init__(self, why):
        super().__init__(why)
        self.why = why


_subs_cache = {}


def bundled_subs():
    if "s" not in _subs_cache:
        _subs_cache["s"] = load_bundled_subs(boot.REPO_DIR)
    return _subs_cache["s"][0]


_def_cache = {}


def make_resolver(compiler):
    """name -> (params, Body) of the compiled sub-routine, through the public il_init(DEF) text"""
    from rzilcompiler.Transformer.Hybrids.SubRoutine import SubRoutineInitType

    def resolve(name):
        text = compiler.get_sub_routine(name).il_init(SubRoutineInitType.DEF)
        if text not in _def_cache:
            _, params, body = reader.parse_subroutine_def(text)
            _def_cache[text] = (params, body)
        return _def_cache[text]
    return resolve


# --------------------------------------------------------------------------------------------- states

def boundary(w):
    vals = {0, 1, 2, w - 1, w, mask(w - 1), 1 << (w - 1), mask(w), mask(w) // 3, mask(w) // 3 * 2}
    for n in (8, 16, 32):
        if n < w:
            vals |= {mask(n - 1), 1 << (n - 1), mask(n), 1 << n, mask(w) ^ mask(n), mask(w) ^ mask(n - 1)}
    return sorted(v & mask(w) for v in vals)


IMM_POOL = [0, 1, 2, 3, 4, 5, 7, 8, 12, 15, 16, 24, 31, 32, 33, 63, 64, 0xFF, 0x100, 0xFFFF, 0x7FFFFFFF,
            0x80000000, 0xFFFFFFFF, 0xFFFFFFFC, 0xFFFFFFF8, 0xFFFFFF00, 0xFFFF0000]


def slot_table(operands):
    """slot -> (width, has_new) from the operand list; raises Discard on inconsistent use of a slot"""
    slots = {}
    imms = set()
    for o in operands:
        if o.kind == "imm":
            imms.add(o.slot[4:])
            continue
        if o.kind == "pc":
            continue
        w, n = slots.get(o.slot, (o.width, False))
        if w != o.width:
            raise Discard("one slot used with two widths")
        slots[o.slot] = (w, n or o.new)
    return slots, imms


def state_strategy(operands, extra_slots=()):
    from hypothesis import strategies as st
    slots, imms = slot_table(operands)
    for s, w in extra_slots:
        slots.setdefault(s, (w, False))

    def val(w):
        return st.one_of(st.sampled_from(boundary(w)), st.integers(0, mask(w)))

    @st.composite
    def build(draw):
        regs = {}
        for s, (w, has_new) in sorted(slots.items()):
            if w > 64:
                old = 0
            else:
                old = draw(val(w))
            new = old
            if has_new and w <= 64:
                new = draw(val(w))
            regs[s] = {"w": w, "old": old, "new": new}
        im = {}
        for l in sorted(imms):
            im[l] = draw(st.one_of(st.sampled_from(IMM_POOL), st.sampled_from(IMM_POOL), st.integers(0, mask(32))))
        return {
            "regs": regs, "imms": im,
            "pc": draw(st.sampled_from([0, 0x1000, 0x7FFFFFFC, 0xFFFFFFF0])) if True else 0,
            "npc": draw(st.sampled_from([4, 0x1008, 0x80000000])),
            "slot": draw(st.integers(0, 3)),
            "mem_seed": draw(st.integers(0, 1 << 16)),
            "cs": draw(st.sampled_from([0, 0x100, 0xFFFF0000])),
        }
    return build()


def simple_states(operands, n, seed):
    """deterministic states without Hypothesis (replay tier / quick loops): boundary-biased PRNG"""
    import random
    rng = random.Random(seed)
    slots, imms = slot_table(operands)
    out = []
    for _ in range(n):
        regs = {}
        for s, (w, has_new) in sorted(slots.items()):
            ww = min(w, 64)
            old = rng.choice(boundary(ww)) if rng.random() < 0.6 else rng.getrandbits(ww)
            new = old
            if has_new:
                new = rng.choice(boundary(ww)) if rng.random() < 0.6 else rng.getrandbits(ww)
            regs[s] = {"w": w, "old": old, "new": new}
        im = {l: (rng.choice(IMM_POOL) if rng.random() < 0.8 else rng.getrandbits(32)) for l in sorted(imms)}
        out.append({"regs": regs, "imms": im, "pc": rng.choice([0, 0x1000, 0x7FFFFFFC, 0xFFFFFFF0]),
                    "npc": rng.choice([4, 0x1008, 0x80000000]), "slot": rng.randrange(4),
                    "mem_seed": rng.randrange(1 << 16), "cs": rng.choice([0, 0x100, 0xFFFF0000])})
    return out


# --------------------------------------------------------------------------------------------- execution

def run_c(ast, state, subs=None, sizeof_type=None):
    """-> (outcome, evaluator). Raises Discard for unjudgeable cases, NotInDialect if outside the dialect."""
    m = Machine(copy.deepcopy(state))
    kw = {}
    if sizeof_type is not None:
        kw["sizeof_type"] = sizeof_type
    ev = CEval(m, subs if subs is not None else bundled_subs(), **kw)
    try:
        ev.run(ast)
    except UB as e:
        raise Discard("C-undefined: " + str(e).split(" of ")[0])
    except Unmodelled as e:
        raise Discard("unmodelled(C)")
    except Inconclusive:
        raise Discard("inconclusive(C)")
    except RecursionError:
        raise Discard("recursion(C)")
    return ev.outcome(), ev


def run_il(body, state, resolver, env=None, literal_banks=False):
    """-> (outcome, interp). Raises Discard (ambiguous/unmodelled/inconclusive) or ILError (emitted IL is wrong)."""
    m = Machine(copy.deepcopy(state))
    it = Interp(m, resolver, literal_banks=literal_banks)
    try:
        it.run_body(body, env)
        out = m.outcome(it.jump_record())
    except Ambiguous:
        raise Discard("ambiguous(IL bank read)")
    except Unmodelled:
        raise Discard("unmodelled(IL)")
    except Inconclusive:
        raise Discard("inconclusive(IL)")
    except UB:
        raise Discard("intrinsic precondition(IL)")
    except RecursionError:
        raise Discard("recursion(IL)")
    return out, it


def diff_outcomes(a, b):
    """list of human-readable differences between two outcomes (C first, IL second)"""
    d = []
    for s in sorted(set(a["regs"]) | set(b["regs"])):
        if a["regs"].get(s) != b["regs"].get(s):
            d.append(("reg", s, a["regs"].get(s), b["regs"].get(s)))
    for ad in sorted(set(a["mem"]) | set(b["mem"])):
        if a["mem"].get(ad) != b["mem"].get(ad):
            d.append(("mem", ad, a["mem"].get(ad), b["mem"].get(ad)))
            if len(d) > 12:
                break
    if a["jump"] != b["jump"]:
        d.append(("jump", None, a["jump"], b["jump"]))
    if a["cancel"] != b["cancel"]:
        d.append(("cancel", None, a["cancel"], b["cancel"]))
    return d


def parse_c(text):
    return strip_parens(parse_program(text))


# --------------------------------------------------------------------------------------------- corpus helpers

def compile_insn(compiler, name, parts=None):
    """Parse (with the compiler's own Lark parser) and transform one corpus instruction through the public
    transform_insn entry point. -> ('ok', RZILInstruction) | ('parse-reject', exc) | ('transform-reject', exc)"""
    from rzilcompiler.Parser import ParsedInsn
    parts = parts if parts is not None else boot.corpus()[name]
    try:
        asts = [compiler.parser.parse(p) for p in parts]
    except Exception as e:
        return "parse-reject", e
    try:
        with boot.quiet():
            insn = compiler.transform_insn(name, ParsedInsn(name, asts, parts))
    except Exception as e:
        return "transform-reject", e
    return "ok", insn


def noped_list():
    import json, os
    with open(os.path.join(boot.REPO_DIR, "Resources/Hexagon/noped_insns.json")) as f:
        return json.load(f)["noped"]


def macro_names():
    """names the resource file declares as one-to-one macros (float macros are 'known but unmodelled')"""
    import json, os
    with open(os.path.join(boot.REPO_DIR, "Resources/Hexagon/qemu_rzil_macros.json")) as f:
        return set(json.load(f)["macros"])


def stratified_sample(names, k, seed):
    """deterministic sample of instruction names, stratified by name prefix (instruction class)"""
    import random
    rng = random.Random(seed)
    groups = {}
    for n in names:
        groups.setdefault(n.split("_")[0], []).append(n)
    out = []
    keys = sorted(groups)
    for g in keys:
        rng.shuffle(groups[g])
    while len(out) < k and any(groups.values()):
        for g in keys:
            if groups[g] and len(out) < k:
                out.append(groups[g].pop())
    return out
