#!/bin/bash
# Offline setup: make sure hypothesis is importable from /venv (it normally already is);
# atheris is optional (C19/C20 byte-level targets degrade to Hypothesis without it).
cd "$(dirname "$(readlink -f "$0")")" || exit 1
export PIP_NO_INDEX=1
/venv/bin/python -c 'import hypothesis' 2>/dev/null || \
  /venv/bin/pip install -q --no-index --find-links /opt/veriftools/wheels hypothesis || exit 1
/venv/bin/python -c 'import sys; sys.path.insert(0,".deps"); import atheris' 2>/dev/null || \
  /venv/bin/pip install -q --no-index --find-links /opt/veriftools/wheels --target .deps atheris >/dev/null 2>&1 || \
  echo "note: atheris not installed; byte-level targets fall back to Hypothesis"
mkdir -p evidence replays
/venv/bin/python -c 'import hypothesis, lark, pcpp; print("setup ok: hypothesis", hypothesis.__version__)'
